package main

// C06 — every value the library returns is well-formed for its type.
//
// A broad PRODUCER sweep on the real code (c06prod.go): every produced value is
//   (1) dumped (type by public accessors, payload by the verif hook
//       cty.VerifDump) and judged by the Lean predicate `Value.WF` through the
//       driver verb `wf` — the same definition the C06 theorems are about;
//   (2) walked with public accessors only, as a second witness: every accessor
//       applicable to the type must not panic, ElementIterator must yield
//       LengthInt members, members must have the container's element type,
//       strings must be NFC, sets must hold no marked / duplicate member, …
// The two judges must agree (a disagreement is a correspondence mismatch); a
// value that either of them rejects is a predicate failure on the real code.

import (
	"bufio"
	"encoding/hex"
	"flag"
	"fmt"
	"os"
	"os/exec"
	"regexp"
	"sort"
	"strings"

	"github.com/zclconf/go-cty/cty"
	"golang.org/x/text/unicode/norm"
)

func init() {
	register("C06", "every value produced by a sweep over the public producers of the real code — all constructors, all operation methods on generated operands, "+
		"element/attribute accessors and iterators, Mark/Unmark family, Refine builders, convert.Convert/Unify, function.Call through stdlib functions, json and msgpack decoders, "+
		"gocty.ToCtyValue, Walk/Transform/Path.Apply, ValueSet algebra — judged by the Lean predicate Value.WF on the hook dump and by a public-accessor walk. "+
		"non-trivial = nesting depth >= 2 (a container holding at least one member, or a marked/refined value); distinct = distinct wire strings of the produced value", runC06)
}

var c06Trace = os.Getenv("C06_TRACE") != ""

type c06Item struct {
	producer string
	wire     string
	bad      string // NFC oracle column: (x.. x..) strings that are not NFC
	caps     string // capsule-equality oracle column: identity tag of every capsule leaf, dump order (c06_d06.go)
	lit      func() string // how to reproduce
	walk     []string
	depth    int
	dupCause string
	cause    func() string // producer-specific root-cause classifier for the failure signature (may be nil)
}

type c06Judge struct {
	ctx       *Ctx
	items     []c06Item
	seen      map[string]struct{}
	nextCause func(res cty.Value) string // set by a producer just before produce(); consumed by see()
}

var c06StrRe = regexp.MustCompile(`x(?:[0-9a-f][0-9a-f])*\b`)

// nfcBad lists the strings of a wire form that norm.NFC does not consider normal.
func c06NfcBad(wire string) string {
	var bad []string
	seen := map[string]bool{}
	for _, m := range c06StrRe.FindAllString(wire, -1) {
		if seen[m] {
			continue
		}
		seen[m] = true
		b, err := hex.DecodeString(m[1:])
		if err != nil {
			continue
		}
		if !norm.NFC.IsNormalString(string(b)) {
			bad = append(bad, m)
		}
	}
	sort.Strings(bad)
	return "(" + strings.Join(bad, " ") + ")"
}

// ---- second witness: public accessors only ---------------------------------------------

type c06Walker struct {
	probs    []string
	dupCause string // why two Equals-true members sit in one set (first such pair)
}

// c06DupCause descends two Equals-true values of one type to the first place that
// explains why set membership kept both: the hash bytes of the pair differ.
func c06DupCause(x, y cty.Value) string {
	hx, px := cty.VerifHashBytes(x)
	hy, py := cty.VerifHashBytes(y)
	if px || py {
		return "hash-panics"
	}
	if string(hx) == string(hy) {
		return "same-hash-bytes" // same bucket, yet both kept: the bucket scan missed it
	}
	t := x.Type()
	if !x.IsKnown() || !y.IsKnown() || x.IsNull() || y.IsNull() {
		return "hash-differs:null-or-unknown"
	}
	switch {
	case t == cty.Number:
		if x.AsBigFloat().Text('f', -1) == y.AsBigFloat().Text('f', -1) && x.AsBigFloat().String() != y.AsBigFloat().String() {
			return "equal-numbers-hash-by-String()-differs"
		}
		return "hash-differs:number"
	case t.IsPrimitiveType():
		return "hash-differs:" + t.FriendlyName()
	case x.CanIterateElements() && y.CanIterateElements() && !t.IsSetType():
		ix, iy := x.ElementIterator(), y.ElementIterator()
		for ix.Next() && iy.Next() {
			_, ex := ix.Element()
			_, ey := iy.Element()
			if !ex.Type().Equals(ey.Type()) {
				continue
			}
			hx, _ := cty.VerifHashBytes(ex)
			hy, _ := cty.VerifHashBytes(ey)
			if string(hx) != string(hy) {
				return c06DupCause(ex, ey)
			}
		}
	}
	return "hash-differs:" + c06Kind(t)
}

// c06Depth is the nesting depth of a payload dump: 1 for a bare leaf or an empty
// container, 2 for a container with a member, a marked leaf or a refined unknown, …
func c06Depth(dump string) int {
	d, m := 0, 0
	for _, c := range dump {
		switch c {
		case '(':
			d++
			if d > m {
				m = d
			}
		case ')':
			d--
		}
	}
	if m == 0 {
		return 1
	}
	return m
}

func (w *c06Walker) prob(p string) {
	if len(w.probs) < 8 {
		w.probs = append(w.probs, p)
	}
}

func (w *c06Walker) acc(name string, f func()) bool {
	if p, why := try(f); p {
		if len(why) > 60 {
			why = why[:60]
		}
		w.prob("accessor-panic:" + name)
		_ = why
		return false
	}
	return true
}

func tyHasOptional(t cty.Type) bool {
	switch {
	case t.IsListType() || t.IsSetType() || t.IsMapType():
		return tyHasOptional(t.ElementType())
	case t.IsTupleType():
		for _, e := range t.TupleElementTypes() {
			if tyHasOptional(e) {
				return true
			}
		}
	case t.IsObjectType():
		if len(t.OptionalAttributes()) > 0 {
			return true
		}
		for _, e := range t.AttributeTypes() {
			if tyHasOptional(e) {
				return true
			}
		}
	}
	return false
}

func tyNamesNFC(t cty.Type) bool {
	switch {
	case t.IsListType() || t.IsSetType() || t.IsMapType():
		return tyNamesNFC(t.ElementType())
	case t.IsTupleType():
		for _, e := range t.TupleElementTypes() {
			if !tyNamesNFC(e) {
				return false
			}
		}
	case t.IsObjectType():
		for k, e := range t.AttributeTypes() {
			if !norm.NFC.IsNormalString(k) || !tyNamesNFC(e) {
				return false
			}
		}
	}
	return true
}

// walk visits v (a value the library returned, or a member of one obtained
// through public accessors) and records every way it is not what its type says.
func (w *c06Walker) walk(v cty.Value, inSet bool, d int) {
	if v == cty.NilVal {
		w.prob("nilval-member")
		return
	}
	t := v.Type()
	if v.IsMarked() {
		if inSet {
			w.prob("set-member-marked")
		}
		u, ms := v.Unmark()
		if len(ms) == 0 {
			w.prob("empty-mark-set")
		}
		if u.IsMarked() {
			w.prob("two-marker-layers")
			return
		}
		v = u
	}
	var null, known bool
	if !w.acc("IsNull", func() { null = v.IsNull() }) || null {
		return
	}
	if !w.acc("IsKnown", func() { known = v.IsKnown() }) {
		return
	}
	if !known {
		w.acc("Range", func() {
			r := v.Range()
			r.DefinitelyNotNull()
			r.CouldBeNull()
			switch {
			case t == cty.Number:
				r.NumberLowerBound()
				r.NumberUpperBound()
			case t == cty.String:
				r.StringPrefix()
			case t.IsCollectionType():
				if r.LengthLowerBound() > r.LengthUpperBound() {
					w.prob("refinement-length-bounds")
				}
			}
		})
		return
	}
	switch {
	case t == cty.DynamicPseudoType:
		w.prob("known-value-of-dynamic-type")
	case t == cty.Bool:
		w.acc("True", func() { v.True() })
	case t == cty.Number:
		w.acc("AsBigFloat", func() {
			if v.AsBigFloat() == nil {
				w.prob("nil-bigfloat")
			}
		})
	case t == cty.String:
		w.acc("AsString", func() {
			if !norm.NFC.IsNormalString(v.AsString()) {
				w.prob("string-not-nfc")
			}
		})
	case t.IsCapsuleType():
		w.acc("EncapsulatedValue", func() { v.EncapsulatedValue() })
	case t.IsListType() || t.IsSetType() || t.IsMapType() || t.IsTupleType() || t.IsObjectType():
		w.container(v, t, d)
	default:
		w.prob("unknown-type-kind")
	}
}

func (w *c06Walker) container(v cty.Value, t cty.Type, d int) {
	n := -1
	if !w.acc("LengthInt", func() { n = v.LengthInt() }) {
		return
	}
	w.acc("Length", func() { v.Length() })
	var keys, vals []cty.Value
	if !w.acc("ElementIterator", func() {
		for it := v.ElementIterator(); it.Next(); {
			k, e := it.Element()
			keys = append(keys, k)
			vals = append(vals, e)
		}
	}) {
		return
	}
	if len(vals) != n {
		w.prob(fmt.Sprintf("iterator-length:%s", c06Kind(t)))
	}
	switch {
	case t.IsTupleType():
		etys := t.TupleElementTypes()
		if n != len(etys) {
			w.prob("tuple-length")
		}
		for i := range etys {
			i := i
			w.acc("Index:tuple", func() {
				e := v.Index(cty.NumberIntVal(int64(i)))
				if !e.Type().Equals(etys[i]) {
					w.prob("member-type:tuple")
				}
			})
		}
		w.acc("AsValueSlice", func() { v.AsValueSlice() })
	case t.IsObjectType():
		atys := t.AttributeTypes()
		if n != len(atys) {
			w.prob("object-attributes")
		}
		for name, aty := range atys {
			name, aty := name, aty
			w.acc("GetAttr", func() {
				e := v.GetAttr(name)
				if !e.Type().Equals(aty) {
					w.prob("member-type:object")
				}
			})
		}
		w.acc("AsValueMap", func() { v.AsValueMap() })
	case t.IsListType():
		for i, e := range vals {
			i := i
			if !e.Type().Equals(t.ElementType()) {
				w.prob("member-type:list")
			}
			w.acc("Index:list", func() { v.Index(cty.NumberIntVal(int64(i))) })
		}
		w.acc("AsValueSlice", func() { v.AsValueSlice() })
	case t.IsMapType():
		for i, e := range vals {
			k := keys[i]
			if !e.Type().Equals(t.ElementType()) {
				w.prob("member-type:map")
			}
			if k.Type() != cty.String || !k.IsKnown() || k.IsNull() || k.IsMarked() {
				w.prob("map-key-kind")
				continue
			}
			if !norm.NFC.IsNormalString(k.AsString()) {
				w.prob("map-key-not-nfc")
			}
			w.acc("Index:map", func() { v.Index(k) })
		}
		w.acc("AsValueMap", func() { v.AsValueMap() })
	case t.IsSetType():
		if st := cty.VerifSetElementType(v); st == cty.NilType || !st.Equals(t.ElementType()) {
			w.prob("set-rules-type")
		}
		for i, e := range vals {
			if !e.Type().Equals(t.ElementType()) {
				w.prob("member-type:set")
			}
			var cm bool
			if w.acc("ContainsMarked", func() { cm = e.ContainsMarked() }) && cm {
				w.prob("set-member-marked")
				continue
			}
			for _, f := range vals[:i] {
				f := f
				w.acc("Equals:set-members", func() {
					if eq := f.Equals(e); eq.IsKnown() && eq.True() {
						w.prob("set-duplicate")
						if w.dupCause == "" {
							w.dupCause = "?"
							try(func() { w.dupCause = c06DupCause(f, e) })
						}
					}
				})
			}
		}
		w.acc("AsValueSet", func() { v.AsValueSet() })
	}
	for i, e := range vals {
		if t.IsTupleType() && i < len(t.TupleElementTypes()) && !e.Type().Equals(t.TupleElementTypes()[i]) {
			w.prob("member-type:tuple-iterator")
		}
		w.walk(e, t.IsSetType(), d+1)
	}
}

func c06Kind(t cty.Type) string {
	switch {
	case t == cty.DynamicPseudoType:
		return "dyn"
	case t.IsPrimitiveType():
		return "prim"
	case t.IsListType():
		return "list"
	case t.IsSetType():
		return "set"
	case t.IsMapType():
		return "map"
	case t.IsTupleType():
		return "tuple"
	case t.IsObjectType():
		return "object"
	case t.IsCapsuleType():
		return "capsule"
	}
	return "?"
}

// c06Walk runs the public-accessor walk on a returned value.
func c06Walk(v cty.Value) (probs []string, dupCause string) {
	w := &c06Walker{}
	if p, _ := try(func() {
		t := v.Type()
		if tyHasOptional(t) {
			w.prob("optional-attribute-in-type")
		}
		if !tyNamesNFC(t) {
			w.prob("attribute-name-not-nfc")
		}
		w.walk(v, false, 1)
	}); p {
		w.prob("walker-panic")
	}
	return w.probs, w.dupCause
}

// ---- collecting and judging --------------------------------------------------------------

// see records a value the real code returned.  lit says how to reproduce it.
func (j *c06Judge) see(producer string, v cty.Value, lit func() string) {
	causeOf := j.nextCause
	j.nextCause = nil
	j.ctx.Tag("produced:" + producer)
	if v == cty.NilVal {
		j.ctx.Tag("nilval:" + producer)
		return
	}
	var wire string
	if p, _ := try(func() { wire = encVal(v) }); p {
		j.ctx.Fail(Failure{Site: "dump", Sig: producer + ":dump-panic", What: "the value cannot be dumped (Type() or the payload walk panics)", Input: producer, GoLit: lit(), Outcome: "panic"})
		return
	}
	if len(wire) > 1<<20 {
		j.ctx.Tag("oversize-skipped:" + producer) // judged neither way; the generators keep values small
		return
	}
	key := wire
	if _, ok := j.seen[key]; ok {
		j.ctx.Eval(wire, false)
		return
	}
	j.seen[key] = struct{}{}
	probs, dupCause := c06Walk(v)
	depth := c06Depth(cty.VerifDump(v))
	j.ctx.Eval(wire, depth >= 2)
	if depth >= 2 {
		j.ctx.Tag("depth>=2:" + producer)
	}
	j.items = append(j.items, c06Item{producer: producer, wire: wire, bad: c06NfcBad(wire), caps: c06CapCol(v), lit: lit, walk: probs, depth: depth, dupCause: dupCause,
		cause: func() string {
			if causeOf == nil {
				return ""
			}
			c := "?"
			try(func() { c = causeOf(v) })
			return c
		}})
}

// run a producer under recover; a panicking producer is another property's business.
func (j *c06Judge) produce(producer string, lit func() string, f func() cty.Value) (cty.Value, bool) {
	var v cty.Value
	if c06Trace {
		fmt.Fprintln(os.Stderr, "C06TRACE", producer, lit())
	}
	if p, _ := try(func() { v = f() }); p {
		j.ctx.Tag("producer-panicked:" + producer)
		j.nextCause = nil
		return cty.NilVal, false
	}
	j.see(producer, v, lit)
	return v, true
}

// leanVerdicts pipes `wf` lines through the compiled Lean driver.
func leanVerdicts(items []c06Item) ([]string, error) {
	drv := ""
	if f := flag.Lookup("drv"); f != nil {
		drv = f.Value.String()
	}
	if drv == "" {
		return nil, fmt.Errorf("no -drv")
	}
	var sb strings.Builder
	for i, it := range items {
		fmt.Fprintf(&sb, "%d wfc %s %s %s\n", i, it.wire, it.bad, it.caps)
	}
	cmd := exec.Command(drv)
	cmd.Stdin = strings.NewReader(sb.String())
	po, err := cmd.StdoutPipe()
	if err != nil {
		return nil, err
	}
	if err := cmd.Start(); err != nil {
		return nil, err
	}
	out := make([]string, 0, len(items))
	sc := bufio.NewScanner(po)
	sc.Buffer(make([]byte, 1<<20), 1<<28)
	for sc.Scan() {
		line := sc.Text()
		want := fmt.Sprintf("%d ", len(out))
		if !strings.HasPrefix(line, want) {
			return nil, fmt.Errorf("driver out of sync at %d: %q", len(out), line)
		}
		out = append(out, line[len(want):])
	}
	if err := cmd.Wait(); err != nil {
		return nil, err
	}
	if len(out) != len(items) {
		return nil, fmt.Errorf("driver answered %d of %d", len(out), len(items))
	}
	return out, nil
}

func (j *c06Judge) finish() {
	verdicts, err := leanVerdicts(j.items)
	if err != nil {
		// no driver: the correspondence cases below still carry the judgement
		j.ctx.Probe("lean-driver-available", false, err.Error())
		verdicts = nil
	}
	for i, it := range j.items {
		lean := "pass"
		if verdicts != nil {
			lean = verdicts[i]
		}
		lit := ""
		if lean != "pass" || len(it.walk) > 0 {
			if p, _ := try(func() { lit = it.lit() }); p {
				lit = "(literal unavailable)"
			}
		}
		expected := "pass"
		if len(it.walk) > 0 {
			// the second witness rejects the value: the Lean judge must reject it too
			expected = "fail (public-accessor walk: " + strings.Join(it.walk, ",") + ")"
			if strings.HasPrefix(lean, "fail") {
				expected = lean
			}
			sig := it.producer + ":" + it.walk[0]
			if it.walk[0] == "set-duplicate" {
				sig = "set-duplicate:" + it.dupCause // the root cause, whoever built the set
			} else if c := it.cause(); c != "" {
				sig += ":" + c
			}
			j.ctx.Fail(Failure{Site: "accessor-walk", Sig: sig,
				What:  "a value returned by the library fails the public-accessor walk: " + strings.Join(it.walk, ", "),
				Input: it.wire, GoLit: lit, Outcome: strings.Join(it.walk, ", ")})
		}
		if strings.HasPrefix(lean, "fail") {
			clause := strings.TrimPrefix(lean, "fail ")
			sig := it.producer + ":" + clause
			if clause == "set-duplicate" && it.dupCause != "" {
				sig = "set-duplicate:" + it.dupCause
			} else if c := it.cause(); c != "" {
				sig += ":" + c
			}
			j.ctx.Fail(Failure{Site: "wf", Sig: sig,
				What:  "a value returned by the library is not well-formed for its type (Lean Value.WF): " + clause,
				Input: it.wire, GoLit: lit, Outcome: lean})
		}
		j.ctx.Add("wfc", expected, it.wire, it.bad, it.caps)
	}
}

// c06SelfTest feeds the Lean judge hand-written dumps of values the public API
// cannot build: each clause of WF must reject its witness (the judge is not vacuous).
func c06SelfTest(ctx *Ctx) {
	for _, c := range []struct{ wire, bad, want string }{
		{"(v (T S) (seq))", "()", "fail tuple-length"},
		{"(v (T S) (seq (s x61) (s x62)))", "()", "fail tuple-length"},
		{"(v (O (x61 S 0)) (smap))", "()", "fail object-attributes"},
		{"(v (O (x61 S 0)) (smap (x62 (s x61))))", "()", "fail object-attributes"},
		{"(v (O (x61 S 1)) (smap (x61 (s x61))))", "()", "fail optional-attribute-in-type"},
		{"(v (L (O (x61 S 1))) null)", "()", "fail optional-attribute-in-type"},
		{"(v S (b 1))", "()", "fail payload-kind"},
		{"(v N (s x61))", "()", "fail payload-kind"},
		{"(v (L S) (smap))", "()", "fail payload-kind"},
		{"(v (L S) (seq (s x61) (n 0 1 0 64)))", "()", "fail payload-kind"},
		{"(v N (bad nilfloat))", "()", "fail payload-kind:nilfloat"},
		{"(v D (s x61))", "()", "fail known-value-of-dynamic-type"},
		{"(v (L D) (seq (s x61)))", "()", "fail known-value-of-dynamic-type"},
		{"(v S (s x65cc81))", "(x65cc81)", "fail string-not-nfc"},
		{"(v (M S) (smap (x65cc81 (s x61))))", "(x65cc81)", "fail map-key-not-nfc"},
		{"(v (O (x65cc81 S 0)) (smap (x65cc81 (s x61))))", "(x65cc81)", "fail attribute-name-not-nfc"},
		{"(v S (mk (x6d) (mk (x6e) (s x61))))", "()", "fail two-marker-layers"},
		{"(v S (mk () (s x61)))", "()", "fail empty-mark-set"},
		{"(v (E S) (sset (1 (mk (x6d) (s x61)))))", "()", "fail set-member-marked"},
		{"(v (E (L S)) (sset (1 (seq (mk (x6d) (s x61))))))", "()", "fail set-member-marked"},
		{"(v (E S) (sset (1 (s x61)) (1 (s x61))))", "()", "fail set-duplicate"},
		{"(v (E N) (sset (1 (n 0 1 0 64)) (2 (n 0 1 0 53))))", "()", "fail set-duplicate"},
		{"(v (E S) (sset (2 (s x61)) (1 (s x62))))", "()", "fail set-order"},
		{"(v N (unk (st u x61)))", "()", "fail refinement-kind"},
		{"(v S (unk (co f 0 3)))", "()", "fail refinement-kind"},
		{"(v D (unk (nl f)))", "()", "fail refinement-kind"},
		{"(v (M S) (smap (x62 (s x61)) (x61 (s x61))))", "()", "fail map-keys-order"},
		{"(v (C 1) (s x61))", "()", "fail payload-kind"},
		// and well-formed neighbours of the above pass
		{"(v (T S) (seq (s x61)))", "()", "pass"},
		{"(v (E N) (sset (1 (n 0 1 0 64)) (2 (n 0 3 0 53))))", "()", "pass"},
		{"(v (E S) (sset (1 (unk -)) (1 (unk -))))", "()", "pass"},
		{"(v (L D) (seq (unk -) null (mk (x6d) null)))", "()", "pass"},
		{"(v S (mk (x6d x6e) (unk (st f x61))))", "()", "pass"},
		{"(v S (s x65cc81))", "()", "pass"},
	} {
		ctx.Add("wf", c.want, c.wire, c.bad)
		ctx.Tag("selftest")
	}
}

func runC06(ctx *Ctx) {
	j := &c06Judge{ctx: ctx, seen: map[string]struct{}{}}
	c06SelfTest(ctx)
	c06SelfTestD06(ctx)
	c06Produce(j)
	j.finish()
}
