package main

// C17, JSON half — generators: valid encodings, token-level and byte-level mutations, raw bytes.

import (
	"bytes"
	"encoding/json"
	"fmt"
	"math/rand"
	"strings"

	"github.com/zclconf/go-cty/cty"
	ctyjson "github.com/zclconf/go-cty/cty/json"
)

// c17jParse reads a well-formed document into a jdoc tree (order and duplicates kept, numbers as spelled).
func c17jParse(b []byte) *jdoc {
	dec := json.NewDecoder(bytes.NewReader(b))
	dec.UseNumber()
	d, err := c17jParseValue(dec)
	if err != nil {
		return nil
	}
	return d
}

func c17jParseValue(dec *json.Decoder) (*jdoc, error) {
	tok, err := dec.Token()
	if err != nil {
		return nil, err
	}
	switch v := tok.(type) {
	case nil:
		return &jdoc{kind: 'n'}, nil
	case bool:
		return &jdoc{kind: 'b', b: v}, nil
	case json.Number:
		return &jdoc{kind: '#', s: string(v)}, nil
	case string:
		return &jdoc{kind: 's', s: v}, nil
	case json.Delim:
		switch v {
		case '[':
			d := &jdoc{kind: 'a'}
			for dec.More() {
				k, err := c17jParseValue(dec)
				if err != nil {
					return nil, err
				}
				d.kids = append(d.kids, k)
			}
			_, err := dec.Token()
			return d, err
		case '{':
			d := &jdoc{kind: 'o'}
			for dec.More() {
				kt, err := dec.Token()
				if err != nil {
					return nil, err
				}
				ks, ok := kt.(string)
				if !ok {
					return nil, fmt.Errorf("key")
				}
				k, err := c17jParseValue(dec)
				if err != nil {
					return nil, err
				}
				d.keys = append(d.keys, ks)
				d.kids = append(d.kids, k)
			}
			_, err := dec.Token()
			return d, err
		}
	}
	return nil, fmt.Errorf("token")
}

func (d *jdoc) clone() *jdoc {
	n := &jdoc{kind: d.kind, b: d.b, s: d.s, keys: append([]string(nil), d.keys...)}
	for _, k := range d.kids {
		n.kids = append(n.kids, k.clone())
	}
	return n
}

// all nodes with their parents (parent nil for the root)
type c17jNode struct {
	n, parent *jdoc
	idx       int
}

func c17jNodes(d *jdoc) []c17jNode {
	var out []c17jNode
	var rec func(n, p *jdoc, i int)
	rec = func(n, p *jdoc, i int) {
		out = append(out, c17jNode{n, p, i})
		for k, c := range n.kids {
			rec(c, n, k)
		}
	}
	rec(d, nil, 0)
	return out
}

var c17jHostileNumbers = []string{"1e999999999", "-1e999999999", "1e-999999999", "1E+2147483647", "1e2147483648", "1e9223372036854775808", "0e99999999999999999999",
	"1e400", "1e-400", "-0", "0.0e-0", "1e1000000", "123456789012345678901234567890123456789012345678901234567890", "0.000000000000000000000000000000000000000000001"}

// raw string tokens the json.Marshal-based writer cannot produce: invalid UTF-8, lone and swapped
// surrogates, a valid pair, NUL, overlong escapes
var c17jHostileStrings = []string{"\"\xff\xfe\"", "\"a\xc3\"", "\"\xed\xa0\x80\"", `"\ud800"`, `"\udc00\ud800"`, `"\ud83d\ude00"`, `"\u0000"`, `"\ud834\udd1e\u0301"`,
	`"e\u0301"`, "\"e\u0301\"", "\"\u212b\"", "\"\u1112\u1161\u11ab\"", "\"\u00e9\"", `"\/"`, `"\x41"`, `"\u00"`, "\"\t\"", `"true"`, `"1e999999999"`, `"type"`, `"value"`}

var c17jKeyVariants = map[string][]string{
	"type":  {"Type", "typ", "type ", "types", "typ\u0435", "TYPE", "value"},
	"value": {"Value", "val", "value ", "values", "VALUE", "type"},
}

var c17jNFCKeys = []string{"\u00e9", "e\u0301", "\u212b", "A\u030a", "\u00c5", "\u1112\u1161\u11ab", "\ud55c"}

// token-level mutation; returns the kind applied ("" if not applicable to this tree)
func (j *c17j) mutateTree(r *rand.Rand, root **jdoc) string {
	nodes := c17jNodes(*root)
	pick := nodes[r.Intn(len(nodes))]
	replace := func(nd c17jNode, with *jdoc) {
		if nd.parent == nil {
			*root = with
		} else {
			nd.parent.kids[nd.idx] = with
		}
	}
	objs, arrs := []c17jNode{}, []c17jNode{}
	for _, n := range nodes {
		switch n.n.kind {
		case 'o':
			objs = append(objs, n)
		case 'a':
			arrs = append(arrs, n)
		}
	}
	// dynamic wrappers: objects with a "type" or "value" member
	var wrappers []c17jNode
	for _, o := range objs {
		for _, k := range o.n.keys {
			if k == "type" || k == "value" {
				wrappers = append(wrappers, o)
				break
			}
		}
	}
	switch r.Intn(14) {
	case 0: // duplicate a key
		if len(objs) == 0 {
			return ""
		}
		o := objs[r.Intn(len(objs))].n
		if len(o.keys) == 0 {
			return ""
		}
		i := r.Intn(len(o.keys))
		var kid *jdoc
		switch r.Intn(3) {
		case 0:
			kid = o.kids[i].clone()
		case 1:
			kid = genDoc(r, 1)
		default:
			kid = genDocLike(r, o.kids[i], 2)
		}
		at := r.Intn(len(o.keys) + 1)
		o.keys = append(o.keys[:at], append([]string{o.keys[i]}, o.keys[at:]...)...)
		o.kids = append(o.kids[:at], append([]*jdoc{kid}, o.kids[at:]...)...)
		return "duplicate-key"
	case 1: // drop a member ("type"/"value" of a wrapper first)
		cand := objs
		if len(wrappers) > 0 && r.Intn(3) != 0 {
			cand = wrappers
		}
		if len(cand) == 0 {
			return ""
		}
		o := cand[r.Intn(len(cand))].n
		if len(o.keys) == 0 {
			return ""
		}
		i := r.Intn(len(o.keys))
		for k, key := range o.keys {
			if (key == "type" || key == "value") && r.Intn(2) == 0 {
				i = k
			}
		}
		o.keys = append(o.keys[:i], o.keys[i+1:]...)
		o.kids = append(o.kids[:i], o.kids[i+1:]...)
		return "drop-member"
	case 2: // rename a key
		cand := objs
		if len(wrappers) > 0 && r.Intn(3) != 0 {
			cand = wrappers
		}
		if len(cand) == 0 {
			return ""
		}
		o := cand[r.Intn(len(cand))].n
		if len(o.keys) == 0 {
			return ""
		}
		i := r.Intn(len(o.keys))
		if vs, ok := c17jKeyVariants[o.keys[i]]; ok && r.Intn(4) != 0 {
			o.keys[i] = vs[r.Intn(len(vs))]
		} else if r.Intn(2) == 0 {
			o.keys[i] = c17jNFCKeys[r.Intn(len(c17jNFCKeys))]
		} else {
			o.keys[i] = c15DocKeys[r.Intn(len(c15DocKeys))]
		}
		return "rename-key"
	case 3: // change an array's length
		if len(arrs) == 0 {
			return ""
		}
		a := arrs[r.Intn(len(arrs))].n
		if len(a.kids) > 0 && r.Intn(2) == 0 {
			i := r.Intn(len(a.kids))
			a.kids = append(a.kids[:i], a.kids[i+1:]...)
			return "array-shorter"
		}
		var kid *jdoc
		if len(a.kids) > 0 && r.Intn(2) == 0 {
			kid = a.kids[r.Intn(len(a.kids))].clone()
		} else {
			kid = genDoc(r, 1)
		}
		at := r.Intn(len(a.kids) + 1)
		a.kids = append(a.kids[:at], append([]*jdoc{kid}, a.kids[at:]...)...)
		return "array-longer"
	case 4: // scalar <-> container
		n := pick.n
		if n.kind == 'a' || n.kind == 'o' {
			replace(pick, genDoc(r, 0))
			return "container-to-scalar"
		}
		switch r.Intn(4) {
		case 0:
			replace(pick, &jdoc{kind: 'a'})
		case 1:
			replace(pick, &jdoc{kind: 'o'})
		case 2:
			replace(pick, &jdoc{kind: 'a', kids: []*jdoc{n.clone()}})
		default:
			replace(pick, &jdoc{kind: 'o', keys: []string{c15DocKeys[r.Intn(len(c15DocKeys))]}, kids: []*jdoc{n.clone()}})
		}
		return "scalar-to-container"
	case 5: // splice a fragment of another document
		if len(j.pool) == 0 {
			return ""
		}
		other := c17jParse(j.pool[r.Intn(len(j.pool))])
		if other == nil {
			return ""
		}
		on := c17jNodes(other)
		replace(pick, on[r.Intn(len(on))].n.clone())
		return "splice"
	case 6: // a hostile number
		s := c17jHostileNumbers[r.Intn(len(c17jHostileNumbers))]
		switch r.Intn(6) {
		case 0:
			s = strings.Repeat(string(rune('1'+r.Intn(9))), 400+r.Intn(2000))
		case 1:
			s = "0." + strings.Repeat("0", 300+r.Intn(800)) + "7"
		case 2:
			s = fmt.Sprintf("%de%d", r.Intn(1000), r.Int63()-r.Int63())
		}
		if r.Intn(3) == 0 {
			replace(pick, &jdoc{kind: 's', s: s})
		} else {
			replace(pick, &jdoc{kind: 'r', s: s})
		}
		return "hostile-number"
	case 7: // a hostile string (value or key)
		s := c17jHostileStrings[r.Intn(len(c17jHostileStrings))]
		if len(objs) > 0 && r.Intn(3) == 0 {
			// as a key: only what the writer can spell; non-NFC and astral keys
			o := objs[r.Intn(len(objs))].n
			if len(o.keys) > 0 {
				o.keys[r.Intn(len(o.keys))] = c17jNFCKeys[r.Intn(len(c17jNFCKeys))] + []string{"", "\U0001D11E", "\x00"}[r.Intn(3)]
				return "hostile-key"
			}
		}
		replace(pick, &jdoc{kind: 'r', s: s})
		return "hostile-string"
	case 8: // wrap in / unwrap from a dynamic wrapper
		if len(wrappers) > 0 && r.Intn(2) == 0 {
			w := wrappers[r.Intn(len(wrappers))]
			for i, k := range w.n.keys {
				if k == "value" {
					replace(w, w.n.kids[i].clone())
					return "unwrap-dynamic"
				}
			}
		}
		tyDoc := &jdoc{kind: 's', s: []string{"string", "number", "bool", "dynamic", "list", "object"}[r.Intn(6)]}
		if r.Intn(3) == 0 {
			if tb, err := ctyjson.MarshalType(genTy(r, 2, TyOpts{Dyn: true, Opt: true})); err == nil {
				if td := c17jParse(tb); td != nil {
					tyDoc = td
				}
			}
		}
		w := &jdoc{kind: 'o', keys: []string{"type", "value"}, kids: []*jdoc{tyDoc, pick.n.clone()}}
		if r.Intn(2) == 0 {
			w.keys[0], w.keys[1] = w.keys[1], w.keys[0]
			w.kids[0], w.kids[1] = w.kids[1], w.kids[0]
		}
		replace(pick, w)
		return "wrap-dynamic"
	case 9: // null / bool / swap of leaves
		switch r.Intn(3) {
		case 0:
			replace(pick, &jdoc{kind: 'n'})
			return "to-null"
		case 1:
			replace(pick, &jdoc{kind: 'b', b: r.Intn(2) == 0})
			return "to-bool"
		default:
			other := nodes[r.Intn(len(nodes))]
			a, b := pick.n.clone(), other.n.clone()
			replace(pick, b)
			if other.parent != nil && other.n != pick.n {
				other.parent.kids[other.idx] = a
			}
			return "swap-nodes"
		}
	case 10: // edit a type descriptor in place: kind names and optional lists
		var strs []c17jNode
		for _, n := range nodes {
			if n.n.kind == 's' {
				switch n.n.s {
				case "list", "set", "map", "tuple", "object", "string", "number", "bool", "dynamic":
					strs = append(strs, n)
				}
			}
		}
		if len(strs) == 0 {
			return ""
		}
		n := strs[r.Intn(len(strs))].n
		n.s = []string{"list", "set", "map", "tuple", "object", "string", "number", "bool", "dynamic", "capsule", "List", "", "objec"}[r.Intn(13)]
		return "retag-type-descriptor"
	case 11: // optional list of an object descriptor: add / remove / undeclared names
		for _, a := range arrs {
			if len(a.n.kids) >= 2 && a.n.kids[0].kind == 's' && a.n.kids[0].s == "object" {
				if r.Intn(2) == 0 {
					continue
				}
				names := &jdoc{kind: 'a'}
				if a.n.kids[1].kind == 'o' {
					for _, k := range a.n.kids[1].keys {
						if r.Intn(2) == 0 {
							names.kids = append(names.kids, &jdoc{kind: 's', s: k})
						}
					}
				}
				switch r.Intn(4) {
				case 0:
					names.kids = append(names.kids, &jdoc{kind: 's', s: c15DocKeys[r.Intn(len(c15DocKeys))]})
				case 1:
					names.kids = append(names.kids, &jdoc{kind: 'n'})
				}
				if len(a.n.kids) >= 3 {
					a.n.kids[2] = names
				} else {
					a.n.kids = append(a.n.kids, names)
				}
				return "edit-optional-list"
			}
		}
		return ""
	case 12: // empty a container
		n := pick.n
		if n.kind == 'a' || n.kind == 'o' {
			n.kids, n.keys = nil, nil
			return "empty-container"
		}
		return ""
	default: // nest the node a few levels
		k := 1 + r.Intn(6)
		cur := pick.n.clone()
		for i := 0; i < k; i++ {
			if r.Intn(2) == 0 {
				cur = &jdoc{kind: 'a', kids: []*jdoc{cur}}
			} else {
				cur = &jdoc{kind: 'o', keys: []string{[]string{"a", "value", "type"}[r.Intn(3)]}, kids: []*jdoc{cur}}
			}
		}
		replace(pick, cur)
		return "nest"
	}
}

var c17jInsertAlphabet = []byte("[]{}:,\"\\ntfu0123456789.eE+- \n\x00\xff\xc3'/*")

// byte-level mutation
func c17jMutateBytes(r *rand.Rand, b []byte) ([]byte, string) {
	if len(b) == 0 {
		return []byte{c17jInsertAlphabet[r.Intn(len(c17jInsertAlphabet))]}, "insert"
	}
	out := append([]byte(nil), b...)
	switch r.Intn(7) {
	case 0:
		i := r.Intn(len(out))
		out[i] ^= 1 << uint(r.Intn(8))
		return out, "bit-flip"
	case 1:
		i := r.Intn(len(out) + 1)
		c := c17jInsertAlphabet[r.Intn(len(c17jInsertAlphabet))]
		return append(out[:i], append([]byte{c}, out[i:]...)...), "insert"
	case 2:
		i := r.Intn(len(out))
		return append(out[:i], out[i+1:]...), "delete"
	case 3:
		return out[:r.Intn(len(out))], "truncate"
	case 4:
		var idx []int
		for i, c := range out {
			if strings.IndexByte("[]{}:,\"", c) >= 0 {
				idx = append(idx, i)
			}
		}
		if len(idx) == 0 {
			return out, "swap-delimiter"
		}
		i := idx[r.Intn(len(idx))]
		out[i] = map[byte]byte{'[': '{', ']': '}', '{': '[', '}': ']', ':': ',', ',': ':', '"': '\''}[out[i]]
		return out, "swap-delimiter"
	case 5:
		i := r.Intn(len(out))
		k := i + r.Intn(len(out)-i+1)
		at := r.Intn(len(out) + 1)
		frag := append([]byte(nil), out[i:k]...)
		return append(out[:at], append(frag, out[at:]...)...), "duplicate-slice"
	default:
		i := r.Intn(len(out))
		k := i + r.Intn(minInt(len(out)-i, 8)+1)
		return append(out[:i], out[k:]...), "delete-slice"
	}
}

func c17jTargetType(r *rand.Rand, constraint, own cty.Type) (cty.Type, string) {
	switch r.Intn(10) {
	case 0, 1, 2:
		return constraint, "equal"
	case 3:
		return own, "own-type"
	case 4:
		return weakenToConstraint(r, own), "weakened"
	case 5, 6:
		return mutateTy(r, constraint, TyOpts{Dyn: true, Opt: true}), "mutated"
	case 7:
		return cty.DynamicPseudoType, "dynamic"
	case 8:
		return c15Annotate(r, constraint), "annotated"
	default:
		return genTy(r, 2, TyOpts{Dyn: true, Opt: true}), "unrelated"
	}
}

func (j *c17j) generated() {
	ctx := j.ctx
	r := ctx.R
	depth := ctx.N(3, 4)
	seen := map[string]bool{}
	// ---- value documents ----
	n := ctx.N(8000, 40000)
	okAfter, total := 0, 0
	for i := 0; i < n; i++ {
		t0 := genTy(r, depth, TyOpts{Dyn: true})
		v := c15Val(r, t0, depth, c15Opts{Null: true})
		constraint := weakenToConstraint(r, v.Type())
		if i%5 == 0 {
			constraint = c15Annotate(r, constraint)
		}
		var b []byte
		var err error
		if p, _ := try(func() { b, err = ctyjson.Marshal(v, constraint) }); p || err != nil {
			ctx.Tag("valid-doc:marshal-failed")
			continue
		}
		if len(j.pool) < 64 {
			j.pool = append(j.pool, b)
		} else if r.Intn(8) == 0 {
			j.pool[r.Intn(len(j.pool))] = b
		}
		// the pristine encoding with its own constraint (trivial case: must decode)
		if i%6 == 0 {
			rr := j.unmarshal(b, constraint, true)
			ctx.Eval("pristine "+string(b)+" "+c17jTyWire(constraint), false)
			ctx.Tag("pristine:" + rr.out)
		}
		// 1..4 mutations
		tree := c17jParse(b)
		if tree == nil {
			ctx.Fail(Failure{Site: "valid-json", Sig: "marshal-output-not-json", What: "Marshal produced bytes that encoding/json does not lex", Input: string(b), GoLit: fmt.Sprintf("json.Marshal(%#v, %#v)", v, constraint), Outcome: string(b)})
			continue
		}
		k := 1 + r.Intn(4)
		var kinds []string
		byteMuts := 0
		for m := 0; m < k; m++ {
			if r.Intn(3) != 0 {
				if kind := j.mutateTree(r, &tree); kind != "" {
					kinds = append(kinds, kind)
				} else {
					byteMuts++
				}
			} else {
				byteMuts++
			}
		}
		var sb strings.Builder
		tree.write(&sb, r)
		mb := []byte(sb.String())
		for m := 0; m < byteMuts; m++ {
			var kind string
			mb, kind = c17jMutateBytes(r, mb)
			kinds = append(kinds, kind)
		}
		for _, kd := range kinds {
			ctx.Tag("mutation:" + kd)
		}
		ty, rel := c17jTargetType(r, constraint, v.Type())
		ctx.Tag("target:" + rel)
		key := string(mb) + " " + c17jTyWire(ty)
		ctx.Eval("mut "+key, !seen[key])
		seen[key] = true
		rr := j.unmarshal(mb, ty, true)
		total++
		if rr.out == "ok" {
			okAfter++
		}
		if i%2 == 0 {
			j.implied(mb, true)
		}
		if i%7 == 0 {
			// a second, unrelated or dynamic target for the same bytes
			j.unmarshal(mb, []cty.Type{cty.DynamicPseudoType, genTy(r, 2, TyOpts{Dyn: true, Opt: true}), cty.String, cty.Map(cty.DynamicPseudoType)}[r.Intn(4)], true)
		}
	}
	ctx.Tag(fmt.Sprintf("mutated-value-docs-decoding-ok-permille:%d", okAfter*1000/maxInt(total, 1)))
	// ---- type documents ----
	n = ctx.N(4000, 20000)
	okAfter, total = 0, 0
	for i := 0; i < n; i++ {
		t0 := genTy(r, depth, TyOpts{Dyn: true, Opt: true})
		var b []byte
		var err error
		if p, _ := try(func() { b, err = ctyjson.MarshalType(t0) }); p || err != nil {
			continue
		}
		if i%6 == 0 {
			rr := j.typeDoc(b, true)
			ctx.Eval("pristine-type "+string(b), false)
			if rr.out != "ok" || !rr.t.Equals(t0) {
				ctx.Fail(Failure{Site: "type-roundtrip", Sig: "json.UnmarshalType:own-output-refused", What: "UnmarshalType does not return the type MarshalType wrote",
					Input: string(b), GoLit: c17jLit("json.UnmarshalType", b, cty.NilType), Outcome: rr.out + " " + c17jTyWire(rr.t)})
			}
		}
		tree := c17jParse(b)
		if tree == nil {
			continue
		}
		k := 1 + r.Intn(4)
		var kinds []string
		byteMuts := 0
		for m := 0; m < k; m++ {
			if r.Intn(3) != 0 {
				if kind := j.mutateTree(r, &tree); kind != "" {
					kinds = append(kinds, kind)
					continue
				}
			}
			byteMuts++
		}
		var sb strings.Builder
		tree.write(&sb, r)
		mb := []byte(sb.String())
		for m := 0; m < byteMuts; m++ {
			var kind string
			mb, kind = c17jMutateBytes(r, mb)
			kinds = append(kinds, kind)
		}
		for _, kd := range kinds {
			ctx.Tag("mutation:" + kd)
		}
		key := "T " + string(mb)
		ctx.Eval("mut-type "+key, !seen[key])
		seen[key] = true
		rr := j.typeDoc(mb, true)
		total++
		if rr.out == "ok" {
			okAfter++
		}
		if i%4 == 0 {
			// a type document is also just a document
			j.implied(mb, true)
			j.unmarshal(mb, []cty.Type{cty.List(cty.String), cty.DynamicPseudoType, cty.Tuple([]cty.Type{cty.String, cty.DynamicPseudoType})}[r.Intn(3)], true)
		}
	}
	ctx.Tag(fmt.Sprintf("mutated-type-docs-decoding-ok-permille:%d", okAfter*1000/maxInt(total, 1)))
	// ---- grammar documents (C15's generator: duplicate keys, wrappers with defects) under mutation ----
	n = ctx.N(2500, 12000)
	for i := 0; i < n; i++ {
		d := genDoc(r, 3)
		var sb strings.Builder
		d.write(&sb, r)
		mb := []byte(sb.String())
		k := r.Intn(3)
		for m := 0; m < k; m++ {
			var kind string
			mb, kind = c17jMutateBytes(r, mb)
			ctx.Tag("mutation:" + kind)
		}
		ty := c15TyForDoc(r, d, 3)
		key := string(mb) + " " + c17jTyWire(ty)
		ctx.Eval("doc "+key, !seen[key])
		seen[key] = true
		j.unmarshal(mb, ty, true)
		j.implied(mb, true)
	}
	// ---- raw random bytes ----
	n = ctx.N(6000, 40000)
	for i := 0; i < n; i++ {
		l := r.Intn(40)
		mb := make([]byte, l)
		for k := range mb {
			if r.Intn(4) == 0 {
				mb[k] = byte(r.Intn(256))
			} else {
				mb[k] = c17jInsertAlphabet[r.Intn(len(c17jInsertAlphabet))]
			}
		}
		ty := genTy(r, 2, TyOpts{Dyn: true, Opt: true})
		key := "R " + string(mb) + " " + c17jTyWire(ty)
		ctx.Eval("raw "+key, !seen[key])
		seen[key] = true
		ctx.Tag("mutation:raw-bytes")
		j.unmarshal(mb, ty, true)
		j.implied(mb, true)
		if i%3 == 0 {
			j.typeDoc(mb, true)
		}
	}
}

func maxInt(a, b int) int {
	if a > b {
		return a
	}
	return b
}
