module verifharness

go 1.18

require (
	github.com/apparentlymart/go-textseg/v15 v15.0.0
	github.com/zclconf/go-cty v0.0.0
	golang.org/x/text v0.11.0
)

replace github.com/zclconf/go-cty => /repo
