module verifharness

go 1.18

require (
	github.com/apparentlymart/go-textseg/v15 v15.0.0
	github.com/zclconf/go-cty v0.0.0
	golang.org/x/text v0.11.0
)

require (
	github.com/vmihailenco/msgpack/v5 v5.3.5 // indirect
	github.com/vmihailenco/tagparser/v2 v2.0.0 // indirect
)

replace github.com/zclconf/go-cty => /repo
