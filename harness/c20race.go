package main

// C20, thorough tier — builds harness/c20racew with `go build -race` and runs it
// with 2, 4, 8 and 16 goroutines.  A race report (exit code 66) or a result that
// differs from the sequential one (exit code 3) is a predicate failure.
//
// What this is worth: it exercises the assumption under
// C20.interleaving_equiv_sequential — that the footprint of every real API call
// is the model's (reads shared objects, writes only what it allocated) — under
// the schedules that happened to occur.  It supports the model's write sets; it
// is not a proof of race freedom, and nothing here is about the Go memory model.

import (
	"context"
	"fmt"
	"os"
	"os/exec"
	"path/filepath"
	"strings"
	"time"
)

// c20raceModfile: `./check` builds the harness against a scratch tree (VERIF_REPO) with
// `-modfile=.bin/alt-<id>.mod` and names the binary ctyharness-<id>; the race worker
// must be built against the same tree.
func c20raceModfile() []string {
	exe, err := os.Executable()
	if err != nil {
		return nil
	}
	base := filepath.Base(exe)
	if !strings.HasPrefix(base, "ctyharness-") {
		return nil
	}
	alt := filepath.Join(filepath.Dir(exe), "alt-"+strings.TrimPrefix(base, "ctyharness-")+".mod")
	if _, err := os.Stat(alt); err != nil {
		return nil
	}
	return []string{"-modfile=" + alt}
}

func c20race(ctx *Ctx) {
	bin := filepath.Join(os.TempDir(), fmt.Sprintf("c20racew-%d", os.Getpid()))
	defer os.Remove(bin)
	args := append([]string{"build", "-race", "-tags", "verif"}, c20raceModfile()...)
	args = append(args, "-o", bin, "./c20racew")
	// quick tier: only when the race-instrumented packages are in the build cache (a cold
	// build takes longer than the whole quick budget); thorough: always
	bctx, cancel := context.WithTimeout(context.Background(), time.Duration(ctx.N(15, 900))*time.Second)
	defer cancel()
	build := exec.CommandContext(bctx, "go", args...)
	build.Env = append(os.Environ(), "CGO_ENABLED=1")
	if out, err := build.CombinedOutput(); err != nil {
		if !ctx.Thorough && bctx.Err() != nil {
			ctx.Tag("race:quick-skipped-cold-build-cache")
			return
		}
		ctx.Probe("race-worker-builds", false, "go build -race failed: "+err.Error()+": "+string(out))
		return
	}
	ctx.Probe("race-worker-builds", true, "")
	// the detector is alive: a documented misuse (concurrent Add on one ValueSet) must be reported
	{
		cmd := exec.Command(bin, "1", "4", "0", "selftest")
		cmd.Env = append(os.Environ(), "GORACE=halt_on_error=1 exitcode=66")
		out, err := cmd.CombinedOutput()
		code := 0
		if ee, ok := err.(*exec.ExitError); ok {
			code = ee.ExitCode()
		}
		ctx.Probe("race-detector-reports-concurrent-ValueSet.Add", code == 66 || strings.Contains(string(out), "DATA RACE") || strings.Contains(string(out), "concurrent map"),
			fmt.Sprintf("exit code %d, output %.300q", code, string(out)))
	}
	gs, reps, iters := []int{2, 3, 4, 8, 16}, 3, 6000
	if !ctx.Thorough {
		gs, reps, iters = []int{2, 8}, 1, 1500
	}
	for _, g := range gs {
		for rep := 0; rep < reps; rep++ {
			seed := ctx.Seed*100 + int64(g)*10 + int64(rep)
			cmd := exec.Command(bin, fmt.Sprint(seed), fmt.Sprint(g), fmt.Sprint(iters))
			cmd.Env = append(os.Environ(), "GORACE=halt_on_error=1 exitcode=66")
			out, err := cmd.CombinedOutput()
			text := string(out)
			key := fmt.Sprintf("race goroutines=%d seed=%d", g, seed)
			ctx.Eval(key, true)
			ctx.Tag(fmt.Sprintf("race:goroutines=%d", g))
			for _, line := range strings.Split(text, "\n") {
				if strings.HasPrefix(line, "CALLS ") {
					var n, p int
					fmt.Sscanf(line, "CALLS %d PANICS %d", &n, &p)
					ctx.res.Dist["race:concurrent-calls"] += n
					ctx.res.Dist["race:concurrent-calls-that-panic-by-contract"] += p
				}
			}
			if err == nil {
				continue
			}
			code := -1
			if ee, ok := err.(*exec.ExitError); ok {
				code = ee.ExitCode()
			}
			f := Failure{Site: "race-worker", Input: key, GoLit: fmt.Sprintf("cd harness && go build -race -tags verif -o w ./c20racew && GORACE=halt_on_error=1 ./w %d %d %d", seed, g, iters)}
			switch {
			case code == 66 || strings.Contains(text, "DATA RACE"):
				f.Sig, f.What = "data-race", "the race detector reported a data race between goroutines that only read shared values"
			case code == 3:
				f.Sig, f.What = "concurrent-result-differs", "a call gave a different result concurrently than sequentially, or a shared value changed"
			default:
				f.Sig, f.What = "worker-crashed", fmt.Sprintf("the worker exited with code %d", code)
			}
			if len(text) > 3000 {
				text = text[:3000]
			}
			f.Outcome = text
			ctx.Fail(f)
		}
	}
}
