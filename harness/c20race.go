package main

func c20race(ctx *Ctx) {}
