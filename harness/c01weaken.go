package main

import (
	"math/big"
	"unicode/utf8"

	"github.com/zclconf/go-cty/cty"
)

// weakening of operands for C01: replace any subset of sub-values, at any
// depth, by unknown values that are true of what they replace.

type wkStats struct {
	positions int  // number of replaced sub-values
	frontier  bool // a DynamicVal was put inside a known value (beyond the stated quantifier)
	kinds     map[string]int
}

func (s *wkStats) hit(k string) {
	s.positions++
	if s.kinds == nil {
		s.kinds = map[string]int{}
	}
	s.kinds[k]++
}

type wkOpts struct {
	p        float64 // probability of replacing a node
	dynTop   bool    // may replace the whole operand by DynamicVal
	frontier bool    // may put DynamicVal inside tuples / objects / lists
}

// strictlyBelow returns v-d computed exactly enough that it is strictly below v, or nil.
func strictlyBelow(v *big.Float, d float64) *big.Float {
	if v.IsInf() {
		return nil
	}
	prec := v.Prec() + 80
	if prec < 600 {
		prec = 600
	}
	c := new(big.Float).SetPrec(prec).Sub(new(big.Float).SetPrec(prec).Set(v), big.NewFloat(d))
	if c.Cmp(v) >= 0 {
		return nil
	}
	return c
}

func strictlyAbove(v *big.Float, d float64) *big.Float {
	if v.IsInf() {
		return nil
	}
	prec := v.Prec() + 80
	if prec < 600 {
		prec = 600
	}
	c := new(big.Float).SetPrec(prec).Add(new(big.Float).SetPrec(prec).Set(v), big.NewFloat(d))
	if c.Cmp(v) <= 0 {
		return nil
	}
	return c
}

var wkDeltas = []float64{1, 0.5, 3, 1e-9}

// sameValueOtherPrec returns v's exact value as a cty number of another
// precision (64-bit integer constructors, or 512 bits), when that is exact.
func sameValueOtherPrec(ctx *Ctx, f *big.Float) (cty.Value, bool) {
	if f.IsInf() {
		return cty.NilVal, false
	}
	if f.IsInt() {
		if i, acc := f.Int64(); acc == big.Exact {
			return cty.NumberIntVal(i), true
		}
		if u, acc := f.Uint64(); acc == big.Exact {
			return cty.NumberUIntVal(u), true
		}
	}
	g := new(big.Float).SetPrec(512).Set(f)
	if g.Cmp(f) == 0 {
		return cty.NumberVal(g), true
	}
	return cty.NilVal, false
}

// numBound picks a bound value on one side of v together with its
// inclusiveness, such that the bound is true of v; ok=false means "no bound".
func numBound(ctx *Ctx, f *big.Float, lower bool) (cty.Value, bool, bool) {
	switch ctx.R.Intn(6) {
	case 0:
		return cty.NilVal, false, false
	case 1, 2:
		// at the value, inclusive; sometimes at another precision than the value
		if ctx.R.Intn(2) == 0 {
			if b, ok := sameValueOtherPrec(ctx, f); ok {
				return b, true, true
			}
		}
		return cty.NumberVal(new(big.Float).Copy(f)), true, true
	default:
		d := wkDeltas[ctx.R.Intn(len(wkDeltas))]
		var c *big.Float
		if lower {
			c = strictlyBelow(f, d)
		} else {
			c = strictlyAbove(f, d)
		}
		if c == nil {
			return cty.NumberVal(new(big.Float).Copy(f)), true, true
		}
		if ctx.R.Intn(3) == 0 {
			// round the bound outwards to 64 bits so that bound and value differ in precision
			mode := big.ToNegativeInf
			if !lower {
				mode = big.ToPositiveInf
			}
			c = new(big.Float).SetMode(mode).SetPrec(64).Set(c)
			c.SetMode(big.ToNearestEven)
		}
		return cty.NumberVal(c), ctx.R.Intn(2) == 0, true
	}
}

// unknownTrueOf builds an unknown value whose type constraint and refinements
// are true of v (v null, or known at its top).
func unknownTrueOf(ctx *Ctx, v cty.Value) (ret cty.Value, kind string) {
	t := v.Type()
	if t == cty.DynamicPseudoType {
		return cty.DynamicVal, "dyn"
	}
	if !v.IsKnown() {
		return cty.UnknownVal(t), "loosen"
	}
	if ctx.R.Intn(5) == 0 {
		return cty.UnknownVal(t), "unrefined"
	}
	if (t.IsCollectionType() || t.IsTupleType() || t.IsObjectType()) && ctx.R.Intn(4) == 0 {
		// a type constraint that holds the placeholder inside: list(any), tuple/object with an any-typed member
		if g := generalizeTy(ctx, t, false); !g.Equals(t) {
			u := cty.UnknownVal(g)
			if !v.IsNull() && ctx.R.Intn(2) == 0 {
				u = u.RefineNotNull()
			}
			return u, "type-with-placeholder-inside"
		}
	}
	ret = cty.UnknownVal(t)
	kind = "unrefined"
	try(func() {
		b := cty.UnknownVal(t).Refine()
		k := ""
		if v.IsNull() {
			// only refinements that leave null possible; other constraints are vacuous for null
			switch {
			case t == cty.Number && ctx.R.Intn(2) == 0:
				b = b.NumberRangeLowerBound(cty.NumberIntVal(int64(ctx.R.Intn(5))), ctx.R.Intn(2) == 0)
				k = "null+bound"
			case t == cty.String && ctx.R.Intn(2) == 0:
				b = b.StringPrefixFull("a")
				k = "null+prefix"
			case (t.IsListType() || t.IsSetType() || t.IsMapType()) && ctx.R.Intn(2) == 0:
				b = b.CollectionLengthLowerBound(ctx.R.Intn(3))
				k = "null+len"
			default:
				k = "null"
			}
			ret, kind = b.NewValue(), k
			return
		}
		if ctx.R.Intn(2) == 0 {
			b = b.NotNull()
			k = "notnull"
		}
		switch {
		case t == cty.Number:
			f := v.AsBigFloat()
			if lo, inc, ok := numBound(ctx, f, true); ok {
				b = b.NumberRangeLowerBound(lo, inc)
				if inc {
					k += "+lo-incl"
				} else {
					k += "+lo-excl"
				}
			}
			if hi, inc, ok := numBound(ctx, f, false); ok {
				b = b.NumberRangeUpperBound(hi, inc)
				if inc {
					k += "+hi-incl"
				} else {
					k += "+hi-excl"
				}
			}
		case t == cty.String:
			s := v.AsString()
			if ctx.R.Intn(4) != 0 {
				// a true prefix, cut at a rune boundary
				cuts := []int{0}
				for i := range s {
					if i > 0 {
						cuts = append(cuts, i)
					}
				}
				cuts = append(cuts, len(s))
				pfx := s[:cuts[ctx.R.Intn(len(cuts))]]
				if utf8.ValidString(pfx) {
					if ctx.R.Intn(2) == 0 {
						b = b.StringPrefixFull(pfx)
						k += "+prefix-full"
					} else {
						b = b.StringPrefix(pfx)
						k += "+prefix-safe"
					}
				}
			}
		case t.IsListType() || t.IsSetType() || t.IsMapType():
			n := v.LengthInt()
			if ctx.R.Intn(3) != 0 {
				lo := n - ctx.R.Intn(3)
				if lo < 0 {
					lo = 0
				}
				b = b.CollectionLengthLowerBound(lo)
				k += "+len-lo"
			}
			if ctx.R.Intn(3) != 0 {
				b = b.CollectionLengthUpperBound(n + ctx.R.Intn(3))
				k += "+len-hi"
			}
		}
		if k == "" {
			k = "unrefined"
		}
		ret, kind = b.NewValue(), k
	})
	return
}

// weakenVal returns a weakening of v.
func weakenVal(ctx *Ctx, v cty.Value, o wkOpts, top bool, st *wkStats) cty.Value {
	if v.IsMarked() {
		u, marks := v.Unmark()
		return weakenVal(ctx, u, o, top, st).WithMarks(marks)
	}
	if top && o.dynTop && ctx.R.Intn(14) == 0 {
		st.hit("dynamic-operand")
		return cty.DynamicVal
	}
	if ctx.R.Float64() < o.p {
		if !v.IsKnown() && ctx.R.Intn(2) == 0 {
			return v
		}
		w, kind := unknownTrueOf(ctx, v)
		if !w.RawEquals(v) {
			st.hit(kind)
		}
		return w
	}
	if !v.IsKnown() || v.IsNull() {
		return v
	}
	t := v.Type()
	ret := v
	try(func() {
		switch {
		case t.IsListType() || t.IsSetType() || t.IsTupleType():
			if v.LengthInt() == 0 {
				return
			}
			var ws []cty.Value
			allDyn := o.frontier && t.IsListType() && ctx.R.Intn(12) == 0
			for it := v.ElementIterator(); it.Next(); {
				_, e := it.Element()
				switch {
				case allDyn:
					ws = append(ws, cty.DynamicVal)
				case o.frontier && t.IsTupleType() && ctx.R.Intn(10) == 0:
					ws = append(ws, cty.DynamicVal)
					st.frontier = true
					st.hit("dynamic-nested")
				default:
					ws = append(ws, weakenVal(ctx, e, o, false, st))
				}
			}
			if allDyn {
				st.frontier = true
				st.hit("dynamic-nested")
			}
			if t.IsSetType() && ctx.R.Intn(3) == 0 {
				// a set with not wholly known members may STORE more members than the set it stands for:
				// one concrete member is given a second, differently weakened stand-in (the two coalesce
				// in the concrete set).  Length, Equals, HasElement … must allow for that.
				i := ctx.R.Intn(v.LengthInt())
				for it := v.ElementIterator(); it.Next(); i-- {
					if i == 0 {
						_, e := it.Element()
						o2 := o
						o2.p = 0.6
						if w2 := weakenVal(ctx, e, o2, false, st); !w2.IsWhollyKnown() {
							ws = append(ws, w2)
							st.hit("set-member-duplicated")
						}
						break
					}
				}
			}
			switch {
			case t.IsListType():
				ret = cty.ListVal(ws)
			case t.IsSetType():
				ret = cty.SetVal(ws)
			default:
				ret = cty.TupleVal(ws)
			}
		case t.IsMapType() || t.IsObjectType():
			if v.LengthInt() == 0 {
				return
			}
			ws := map[string]cty.Value{}
			for it := v.ElementIterator(); it.Next(); {
				k, e := it.Element()
				if o.frontier && t.IsObjectType() && ctx.R.Intn(10) == 0 {
					ws[k.AsString()] = cty.DynamicVal
					st.frontier = true
					st.hit("dynamic-nested")
				} else {
					ws[k.AsString()] = weakenVal(ctx, e, o, false, st)
				}
			}
			if t.IsMapType() {
				ret = cty.MapVal(ws)
			} else {
				ret = cty.ObjectVal(ws)
			}
		}
	})
	return ret
}

// weakenTuple weakens an operand tuple; at least one position is replaced
// whenever that is possible at all.
func weakenTuple(ctx *Ctx, args []cty.Value, skip func(i int) bool, o wkOpts) ([]cty.Value, *wkStats) {
	for attempt := 0; ; attempt++ {
		st := &wkStats{}
		ws := make([]cty.Value, len(args))
		for i, a := range args {
			if skip != nil && skip(i) {
				ws[i] = a
				continue
			}
			oo := o
			if attempt > 2 {
				oo.p = 0.6
			}
			ws[i] = weakenVal(ctx, a, oo, true, st)
		}
		if st.positions > 0 || attempt > 5 {
			return ws, st
		}
	}
}

// generalizeTy replaces some parts of t by the dynamic pseudo-type (top: may the
// whole type be replaced).
func generalizeTy(ctx *Ctx, t cty.Type, top bool) cty.Type {
	if top && ctx.R.Intn(3) == 0 {
		return cty.DynamicPseudoType
	}
	switch {
	case t.IsListType():
		return cty.List(generalizeTy(ctx, t.ElementType(), true))
	case t.IsSetType():
		return cty.Set(generalizeTy(ctx, t.ElementType(), true))
	case t.IsMapType():
		return cty.Map(generalizeTy(ctx, t.ElementType(), true))
	case t.IsTupleType():
		es := t.TupleElementTypes()
		n := make([]cty.Type, len(es))
		for i := range es {
			n[i] = generalizeTy(ctx, es[i], true)
		}
		return cty.Tuple(n)
	case t.IsObjectType():
		atys := map[string]cty.Type{}
		src := t.AttributeTypes()
		for _, k := range sortedKeys(src) { // sorted: reproducible order of the random draws
			atys[k] = generalizeTy(ctx, src[k], true)
		}
		return cty.Object(atys)
	}
	return t
}
