package main

import (
	"encoding/json"
	"fmt"
	"strings"

	"github.com/zclconf/go-cty/cty"
)

func init() {
	register("C07", "types generated to depth 3/4 over all kinds incl. placeholders, optional attributes and two capsule types; "+
		"pairs = independent, equal-by-construction, and single-position mutants; all types of size<=3 (quick) or <=4 (thorough) "+
		"over two attribute names are enumerated with all ordered pairs of size<=3. non-trivial = at least one compound type in the case; "+
		"distinct = distinct canonical wire strings of the whole case", runC07)
}

// enumTys enumerates all types with exactly `size` nodes over attribute names a,b.
func enumTys(size int, memo map[int][]cty.Type) []cty.Type {
	if v, ok := memo[size]; ok {
		return v
	}
	var out []cty.Type
	if size == 1 {
		out = []cty.Type{cty.Bool, cty.Number, cty.String, cty.DynamicPseudoType, capsuleTypes[0],
			cty.EmptyTuple, cty.EmptyObject}
	} else {
		for _, e := range enumTys(size-1, memo) {
			out = append(out, cty.List(e), cty.Set(e), cty.Map(e), cty.Tuple([]cty.Type{e}),
				cty.Object(map[string]cty.Type{"a": e}), cty.Object(map[string]cty.Type{"b": e}),
				cty.ObjectWithOptionalAttrs(map[string]cty.Type{"a": e}, []string{"a"}))
		}
		// two children
		for s1 := 1; s1 <= size-2; s1++ {
			s2 := size - 1 - s1
			for _, e1 := range enumTys(s1, memo) {
				for _, e2 := range enumTys(s2, memo) {
					out = append(out, cty.Tuple([]cty.Type{e1, e2}),
						cty.Object(map[string]cty.Type{"a": e1, "b": e2}),
						cty.ObjectWithOptionalAttrs(map[string]cty.Type{"a": e1, "b": e2}, []string{"b"}))
				}
			}
		}
	}
	memo[size] = out
	return out
}

// refMatches is the harness's own reading of the conformance rule: equal,
// disregarding optional annotations, after each placeholder in the constraint
// is replaced by the corresponding part of the type.
func refMatches(c, t cty.Type) bool {
	switch {
	case c == cty.DynamicPseudoType:
		return true
	case c.IsPrimitiveType() || c.IsCapsuleType():
		return c == t
	case c.IsListType():
		return t.IsListType() && refMatches(c.ElementType(), t.ElementType())
	case c.IsSetType():
		return t.IsSetType() && refMatches(c.ElementType(), t.ElementType())
	case c.IsMapType():
		return t.IsMapType() && refMatches(c.ElementType(), t.ElementType())
	case c.IsTupleType():
		if !t.IsTupleType() {
			return false
		}
		ce, te := c.TupleElementTypes(), t.TupleElementTypes()
		if len(ce) != len(te) {
			return false
		}
		for i := range ce {
			if !refMatches(ce[i], te[i]) {
				return false
			}
		}
		return true
	case c.IsObjectType():
		if !t.IsObjectType() {
			return false
		}
		ca, ta := c.AttributeTypes(), t.AttributeTypes()
		if len(ca) != len(ta) {
			return false
		}
		for k, cv := range ca {
			tv, ok := ta[k]
			if !ok || !refMatches(cv, tv) {
				return false
			}
		}
		return true
	}
	return false
}

// zeroOpt rewrites the optional flags of a wire-form type to 0.

func hasCapsule(t cty.Type) bool { return strings.Contains(encTy(t), "(C ") }
func isCompound(t cty.Type) bool { return strings.HasPrefix(encTy(t), "(") }

func c07Single(ctx *Ctx, t cty.Type) {
	w := encTy(t)
	ctx.Tag("kind:" + kindTag(t))
	// reflexivity
	if !t.Equals(t) {
		ctx.Fail(Failure{Site: "equals-refl", Sig: "refl:" + kindTag(t), What: "a type is not Equal to itself", Input: w, GoLit: t.GoString(), Outcome: "t.Equals(t) = false"})
	}
	// HasDynamicTypes <-> placeholder occurs
	occurs := w == "D" || strings.Contains(w, " D)") || strings.Contains(w, " D ")
	hd := t.HasDynamicTypes()
	if hd != occurs {
		ctx.Fail(Failure{Site: "hasdyn", Sig: "hasdyn:" + kindTag(t), What: "HasDynamicTypes disagrees with occurrence of a placeholder", Input: w, GoLit: t.GoString(), Outcome: fmt.Sprint(hd)})
	}
	ctx.Add("ty.hasdyn", encBool(hd), w)
	// WithoutOptionalAttributesDeep: idempotent, changes nothing else
	s := t.WithoutOptionalAttributesDeep()
	sw := encTy(s)
	if sw != encTyOpt(t, false) {
		ctx.Fail(Failure{Site: "stripopt-only", Sig: "stripopt:" + kindTag(t), What: "WithoutOptionalAttributesDeep changed something other than optional annotations (or left one)", Input: w, GoLit: t.GoString(), Outcome: sw})
	}
	if ss := encTy(s.WithoutOptionalAttributesDeep()); ss != sw || !s.WithoutOptionalAttributesDeep().Equals(s) {
		ctx.Fail(Failure{Site: "stripopt-idem", Sig: "stripopt-idem:" + kindTag(t), What: "WithoutOptionalAttributesDeep is not idempotent", Input: w, GoLit: t.GoString(), Outcome: ss})
	}
	ctx.Add("ty.stripopt", sw, w)
	// JSON round trip for capsule-free types
	if !hasCapsule(t) {
		b, err := t.MarshalJSON()
		if err != nil {
			ctx.Fail(Failure{Site: "typejson", Sig: "typejson-marshal-err", What: "MarshalJSON failed on a capsule-free type", Input: w, GoLit: t.GoString(), Outcome: err.Error()})
		} else {
			var back cty.Type
			var uerr error
			p, why := try(func() { uerr = json.Unmarshal(b, &back) })
			switch {
			case p:
				ctx.Fail(Failure{Site: "typejson", Sig: "typejson-panic", What: "UnmarshalJSON panicked on MarshalJSON output", Input: w, GoLit: t.GoString(), Outcome: why})
			case uerr != nil:
				ctx.Fail(Failure{Site: "typejson", Sig: "typejson-unmarshal-err", What: "UnmarshalJSON rejected MarshalJSON output", Input: w, GoLit: t.GoString(), Outcome: uerr.Error()})
			case encTy(back) != w || !back.Equals(t):
				ctx.Fail(Failure{Site: "typejson", Sig: "typejson-changed:" + kindTag(t), What: "type changed by JSON round trip", Input: w, GoLit: t.GoString(), Outcome: encTy(back) + " via " + string(b)})
			}
			ctx.Add("ty.json", string(jsonTreeOfBytes(b)), w)
		}
	} else if _, err := t.MarshalJSON(); err == nil {
		ctx.Fail(Failure{Site: "typejson", Sig: "typejson-capsule-accepted", What: "MarshalJSON accepted a capsule type", Input: w, GoLit: t.GoString(), Outcome: "nil error"})
	}
	ctx.Eval("single "+w, isCompound(t))
}

func c07Pair(ctx *Ctx, a, b cty.Type, how string) {
	wa, wb := encTy(a), encTy(b)
	ctx.Tag("pair:" + how)
	eab, eba := a.Equals(b), b.Equals(a)
	if eab != eba {
		ctx.Fail(Failure{Site: "equals-symm", Sig: "symm:" + kindTag(a) + "/" + kindTag(b), What: "Type.Equals is not symmetric", Input: wa + " " + wb, GoLit: a.GoString() + " ; " + b.GoString(), Outcome: fmt.Sprintf("a.Equals(b)=%v b.Equals(a)=%v", eab, eba)})
	}
	if eab != (wa == wb) {
		ctx.Fail(Failure{Site: "equals-distinguishes", Sig: "disting:" + kindTag(a) + "/" + kindTag(b), What: "Type.Equals disagrees with structural identity", Input: wa + " " + wb, GoLit: a.GoString() + " ; " + b.GoString(), Outcome: fmt.Sprintf("Equals=%v structural=%v", eab, wa == wb)})
	}
	if eab {
		ctx.Tag("pair-equal")
	}
	ctx.Add("ty.equals", encBool(eab), wa, wb)
	// conformance of a to constraint b
	errs := a.TestConformance(b)
	m := refMatches(b, a)
	if (len(errs) == 0) != m {
		ctx.Fail(Failure{Site: "conformance", Sig: fmt.Sprintf("conform:%v:%s/%s", m, kindTag(a), kindTag(b)), What: "TestConformance disagrees with 'equal up to optional annotations after filling placeholders'", Input: wa + " " + wb, GoLit: a.GoString() + " ; " + b.GoString(), Outcome: fmt.Sprintf("%d errors, reference says matches=%v", len(errs), m)})
	}
	if m {
		ctx.Tag("conforms")
	}
	ctx.Add("ty.conform", fmt.Sprint(len(errs)), wb, wa)
	ctx.Eval("pair "+wa+" "+wb, isCompound(a) || isCompound(b))
}

func c07Triple(ctx *Ctx, a, b, c cty.Type) {
	if a.Equals(b) && b.Equals(c) && !a.Equals(c) {
		ctx.Fail(Failure{Site: "equals-trans", Sig: "trans", What: "Type.Equals is not transitive", Input: encTy(a) + " " + encTy(b) + " " + encTy(c), GoLit: a.GoString() + " ; " + b.GoString() + " ; " + c.GoString(), Outcome: "a=b, b=c, a≠c"})
	}
	ctx.Eval("triple "+encTy(a)+" "+encTy(b)+" "+encTy(c), isCompound(a) || isCompound(b) || isCompound(c))
}

func kindTag(t cty.Type) string {
	switch {
	case t == cty.DynamicPseudoType:
		return "dyn"
	case t.IsPrimitiveType():
		return "prim"
	case t.IsListType():
		return "list"
	case t.IsSetType():
		return "set"
	case t.IsMapType():
		return "map"
	case t.IsTupleType():
		return "tuple"
	case t.IsObjectType():
		return "object"
	case t.IsCapsuleType():
		return "capsule"
	}
	return "?"
}

func runC07(ctx *Ctx) {
	o := TyOpts{Dyn: true, Opt: true, Capsule: true}
	// 1. small scope, enumerated
	maxSize := ctx.N(3, 4)
	memo := map[int][]cty.Type{}
	var small, pairPool []cty.Type
	for s := 1; s <= maxSize; s++ {
		small = append(small, enumTys(s, memo)...)
		if s <= 3 {
			pairPool = append(pairPool, enumTys(s, memo)...)
		}
	}
	for _, t := range small {
		c07Single(ctx, t)
	}
	if !ctx.Thorough {
		pairPool = nil
		for s := 1; s <= 2; s++ {
			pairPool = append(pairPool, enumTys(s, memo)...)
		}
	}
	for _, a := range pairPool {
		for _, b := range pairPool {
			c07Pair(ctx, a, b, "enum")
		}
	}
	ctx.res.Exhaustive = true
	ctx.res.Scope = fmt.Sprintf("all %d types of size<=%d over attribute names {a,b} (one optional variant), one capsule type; all %d ordered pairs among the %d types of size<=%d", len(small), maxSize, len(pairPool)*len(pairPool), len(pairPool), map[bool]int{false: 2, true: 3}[ctx.Thorough])
	// 1b. attribute names that need escaping in JSON / are not NFC / are unusual (harness/c07names.go)
	c07OddNames_run(ctx)
	// 2. random deep types
	n := ctx.N(1500, 60000)
	depth := ctx.N(3, 4)
	for i := 0; i < n; i++ {
		a := genTy(ctx.R, depth, o)
		c07Single(ctx, a)
		b := genTy(ctx.R, depth, o)
		c07Pair(ctx, a, b, "independent")
		// equal by construction (rebuilt through the wire-independent route: mutate twice is not equal; rebuild)
		a2 := rebuildTy(a)
		c07Pair(ctx, a, a2, "rebuilt")
		m := mutateTy(ctx.R, a, o)
		c07Pair(ctx, a, m, "mutant")
		c07Pair(ctx, m, a, "mutant-rev")
		// constraint derived from a by inserting placeholders / toggling optional
		c := weakenToConstraint(ctx.R, a)
		c07Pair(ctx, a, c, "constraint")
		c07Pair(ctx, m, c, "mutant-vs-constraint")
		c07Triple(ctx, a, a2, m)
		c07Triple(ctx, a, a2, rebuildTy(a2))
	}
}

// rebuildTy reconstructs an equal type from scratch through the constructors.
func rebuildTy(t cty.Type) cty.Type {
	switch {
	case t.IsListType():
		return cty.List(rebuildTy(t.ElementType()))
	case t.IsSetType():
		return cty.Set(rebuildTy(t.ElementType()))
	case t.IsMapType():
		return cty.Map(rebuildTy(t.ElementType()))
	case t.IsTupleType():
		es := t.TupleElementTypes()
		n := make([]cty.Type, len(es))
		for i := range es {
			n[i] = rebuildTy(es[i])
		}
		return cty.Tuple(n)
	case t.IsObjectType():
		atys := map[string]cty.Type{}
		for k, v := range t.AttributeTypes() {
			atys[k] = rebuildTy(v)
		}
		var opts []string
		for k := range t.OptionalAttributes() {
			opts = append(opts, k)
		}
		return cty.ObjectWithOptionalAttrs(atys, opts)
	}
	return t
}

// weakenToConstraint replaces random sub-types by the placeholder and toggles
// optional annotations: the result is a constraint t conforms to.
func weakenToConstraint(r interface{ Intn(int) int }, t cty.Type) cty.Type {
	if r.Intn(5) == 0 {
		return cty.DynamicPseudoType
	}
	switch {
	case t.IsListType():
		return cty.List(weakenToConstraint(r, t.ElementType()))
	case t.IsSetType():
		return cty.Set(weakenToConstraint(r, t.ElementType()))
	case t.IsMapType():
		return cty.Map(weakenToConstraint(r, t.ElementType()))
	case t.IsTupleType():
		es := t.TupleElementTypes()
		n := make([]cty.Type, len(es))
		for i := range es {
			n[i] = weakenToConstraint(r, es[i])
		}
		return cty.Tuple(n)
	case t.IsObjectType():
		atys := map[string]cty.Type{}
		var opts []string
		src := t.AttributeTypes()
		for _, k := range sortedKeys(src) { // sorted: every random draw must be a function of the seed
			atys[k] = weakenToConstraint(r, src[k])
		}
		for _, k := range sortedKeys(atys) {
			if r.Intn(3) == 0 {
				opts = append(opts, k)
			}
		}
		return cty.ObjectWithOptionalAttrs(atys, opts)
	}
	return t
}
