package main

// C11, second deepening (slice d11b) — correspondence for the functions whose totality is proved
// END TO END in Lean (`C11.call_total_<f>`: Props/C11.lean).  The theorems speak about the modelled
// `Type` / `Impl` callbacks run through the modelled call protocol on ARBITRARY well-formed argument
// lists; here the same model (driver op d11b.call) is compared with the real `XFunc.Call` on the
// argument lists of C11's own generator — any number of arguments, values of the parameter's type or
// of an unrelated type, nulls, unknowns (refined and not), DynamicVal and marks at any depth — and not
// only on the intended domain that the C13 / C14 correspondences cover.  Compared: the result value
// with its type, or the class err / panicerr / panic.

import (
	"errors"
	"time"
	"math"
	"regexp"
	"strings"

	"github.com/zclconf/go-cty/cty"
	"github.com/zclconf/go-cty/cty/function"
	"github.com/zclconf/go-cty/cty/function/stdlib"
)

type c11d11bFn struct {
	model string // name of D11b.table / D11b.collTable (lean/CtyModel/Stdlib/d11bFuncs.lean)
	goVar string
	f     function.Function
}

var c11d11bFuncs = []c11d11bFn{
	{"hasindex", "HasIndexFunc", stdlib.HasIndexFunc},
	{"keys", "KeysFunc", stdlib.KeysFunc},
	{"values", "ValuesFunc", stdlib.ValuesFunc},
	{"reverse", "ReverseListFunc", stdlib.ReverseListFunc},
	{"coalescelist", "CoalesceListFunc", stdlib.CoalesceListFunc},
	{"compact", "CompactFunc", stdlib.CompactFunc},
	{"range", "RangeFunc", stdlib.RangeFunc},
	{"chunklist", "ChunklistFunc", stdlib.ChunklistFunc},
	{"index", "IndexFunc", stdlib.IndexFunc},
	{"signum", "SignumFunc", stdlib.SignumFunc},
	{"ceil", "CeilFunc", stdlib.CeilFunc},
	{"floor", "FloorFunc", stdlib.FloorFunc},
	{"int", "IntFunc", stdlib.IntFunc},
	{"abs", "AbsoluteFunc", stdlib.AbsoluteFunc},
	{"neg", "NegateFunc", stdlib.NegateFunc},
	{"min", "MinFunc", stdlib.MinFunc},
	{"max", "MaxFunc", stdlib.MaxFunc},
	{"not", "NotFunc", stdlib.NotFunc},
	{"and", "AndFunc", stdlib.AndFunc},
	{"or", "OrFunc", stdlib.OrFunc},
	{"add", "AddFunc", stdlib.AddFunc},
	{"sub", "SubtractFunc", stdlib.SubtractFunc},
	{"mul", "MultiplyFunc", stdlib.MultiplyFunc},
	{"div", "DivideFunc", stdlib.DivideFunc},
	{"mod", "ModuloFunc", stdlib.ModuloFunc},
	{"assertnotnull", "AssertNotNullFunc", stdlib.AssertNotNullFunc},
}

func c11D11bInvoke(f function.Function, args []cty.Value) c13Res {
	var v cty.Value
	var err error
	if p, _ := try(func() { v, err = f.Call(args) }); p {
		return c13Res{class: "panic"}
	}
	if err != nil {
		var pe function.PanicError
		if errors.As(err, &pe) {
			return c13Res{class: "panicerr", err: err}
		}
		return c13Res{class: "err", err: err}
	}
	return c13Res{class: "ok", val: v}
}

func c11D11bCase(ctx *Ctx, e c11d11bFn, args []cty.Value) {
	for _, a := range args {
		// UnmarkDeep rebuilds sets it walks through (see c13Case): left to the marks slice
		if a.ContainsMarked() && c13CollidingSet(a) {
			ctx.Tag("d11b:skipped:unmarkdeep-rebuilds-colliding-set")
			return
		}
	}
	r := c11D11bInvoke(e.f, args)
	ctx.Add("d11b.call", r.wire(), e.model, c13EncArgs(args))
	ctx.Tag("d11b:" + e.model + ":" + r.class)
}

func c11D11bCorrespondence(ctx *Ctx) {
	per := ctx.N(300, 2500)
	for _, e := range c11d11bFuncs {
		ps := e.f.Params()
		vp := e.f.VarParam()
		fn := c11Fn{e.goVar, e.f, true}
		// fixed shapes first: no argument, DynamicVal / null / unknown / marked in every position
		c11D11bCase(ctx, e, nil)
		n0 := len(ps)
		if vp != nil {
			n0 += 2
		}
		for j := 0; j < n0; j++ {
			for _, special := range []func(cty.Type) cty.Value{
				func(cty.Type) cty.Value { return cty.DynamicVal },
				func(cty.Type) cty.Value { return cty.NullVal(cty.DynamicPseudoType) },
				func(t cty.Type) cty.Value { return cty.NullVal(t) },
				func(t cty.Type) cty.Value { return cty.UnknownVal(t) },
				func(t cty.Type) cty.Value { return cty.UnknownVal(t).Mark("m") },
			} {
				args := make([]cty.Value, n0)
				for i := range args {
					p := vp
					if i < len(ps) {
						p = &ps[i]
					}
					args[i] = c11GenArg(ctx, e.goVar, i, *p, false)
				}
				args[j] = special(args[j].Type())
				c11D11bCase(ctx, e, args)
			}
		}
		// two number parameters: every pair of the special numbers (the big.ErrNaN corners Inf-Inf, 0*Inf, 0/0, Inf/Inf, x%0, Inf%x)
		if len(ps) == 2 && vp == nil && ps[0].Type == cty.Number && ps[1].Type == cty.Number {
			sp := []cty.Value{cty.PositiveInfinity, cty.NegativeInfinity, cty.Zero, cty.NumberFloatVal(-0.0), cty.NumberIntVal(1), cty.NumberIntVal(-7),
				cty.NumberFloatVal(0.5), cty.MustParseNumberVal("1e40"), cty.MustParseNumberVal("-3.25"), cty.MustParseNumberVal("1e-40")}
			for _, a := range sp {
				for _, b := range sp {
					c11D11bCase(ctx, e, []cty.Value{a, b})
					ctx.Tag("d11b:special-number-pair")
				}
			}
		}
		perFn := per
		if e.model == "range" {
			// a long progression costs the MODEL a thousand big-float additions on a list it appends to: fewer cases
			perFn = ctx.N(25, 100)
		}
		for k := 0; k < perFn; k++ {
			n := len(ps)
			if vp != nil {
				n += ctx.R.Intn(4)
			}
			inject := k%3 != 0
			args := make([]cty.Value, n)
			for i := range args {
				p := vp
				if i < len(ps) {
					p = &ps[i]
				}
				args[i] = c11GenArg(ctx, e.goVar, i, *p, inject)
			}
			args = c11ApplyBoundaries(ctx, fn, args, inject)
			if inject && ctx.R.Intn(40) == 0 && len(args) > 0 {
				args = args[:len(args)-1]
			}
			if inject && ctx.R.Intn(60) == 0 {
				args = append(args, cty.StringVal("extra"))
			}
			c11D11bCase(ctx, e, args)
		}
	}
	c11D11bGlueCorrespondence(ctx)
	c11D11bMathCorrespondence(ctx)
}

// log / pow (D11b.mathTable): the math library's float64 answer on the two arguments, when both are known
// numbers, is the oracle column
func c11D11bMathCorrespondence(ctx *Ctx) {
	per := ctx.N(300, 2500)
	for _, e := range []struct {
		c11d11bFn
		ref func(a, b float64) float64
	}{{c11d11bFn{"log", "LogFunc", stdlib.LogFunc}, func(a, b float64) float64 { return math.Log(a) / math.Log(b) }},
		{c11d11bFn{"pow", "PowFunc", stdlib.PowFunc}, math.Pow}} {
		ps := e.f.Params()
		fn := c11Fn{e.goVar, e.f, true}
		for k := 0; k < per; k++ {
			inject := k%3 != 0
			args := make([]cty.Value, len(ps))
			for i := range args {
				args[i] = c11GenArg(ctx, e.goVar, i, ps[i], inject)
			}
			args = c11ApplyBoundaries(ctx, fn, args, inject)
			if inject && ctx.R.Intn(40) == 0 && len(args) > 0 {
				args = args[:len(args)-1]
			}
			ref := math.NaN()
			if len(args) == 2 {
				a, _ := args[0].UnmarkDeep()
				b, _ := args[1].UnmarkDeep()
				if a.IsKnown() && !a.IsNull() && a.Type() == cty.Number && b.IsKnown() && !b.IsNull() && b.Type() == cty.Number {
					fa, _ := a.AsBigFloat().Float64()
					fb, _ := b.AsBigFloat().Float64()
					ref = e.ref(fa, fb)
				}
			}
			r := c11D11bInvoke(e.f, args)
			ctx.Add("d11b.math", r.wire(), e.model, c13EncArgs(args), f64Wire(ref))
			ctx.Tag("d11b:" + e.model + ":" + r.class)
		}
	}
}

// ---- the string functions that are cty.StringVal ∘ library (D11b.glueTable) ----------------------

var c11d11bGlue = []c11d11bFn{
	{"upper", "UpperFunc", stdlib.UpperFunc},
	{"lower", "LowerFunc", stdlib.LowerFunc},
	{"strreverse", "ReverseFunc", stdlib.ReverseFunc},
	{"title", "TitleFunc", stdlib.TitleFunc},
	{"trimspace", "TrimSpaceFunc", stdlib.TrimSpaceFunc},
	{"chomp", "ChompFunc", stdlib.ChompFunc},
	{"trim", "TrimFunc", stdlib.TrimFunc},
	{"trimprefix", "TrimPrefixFunc", stdlib.TrimPrefixFunc},
	{"trimsuffix", "TrimSuffixFunc", stdlib.TrimSuffixFunc},
	{"replace", "ReplaceFunc", stdlib.ReplaceFunc},
	{"regexreplace", "RegexReplaceFunc", stdlib.RegexReplaceFunc},
	{"split", "SplitFunc", stdlib.SplitFunc},
	{"indent", "IndentFunc", stdlib.IndentFunc},
	{"substr", "SubstrFunc", stdlib.SubstrFunc},
	{"timeadd", "TimeAddFunc", stdlib.TimeAddFunc},
}

// c11D11bStrs: the arguments as plain strings when ALL of them are known, non-null, unmarked
// strings at the given positions (then Impl is reached and asks the library about them)
func c11D11bStrs(args []cty.Value, idx ...int) ([]string, bool) {
	out := make([]string, len(idx))
	for k, i := range idx {
		if i >= len(args) {
			return nil, false
		}
		v, _ := args[i].UnmarkDeep() // the parameters do not allow marks: the protocol hands Impl the unmarked value
		if !v.IsKnown() || v.IsNull() || v.Type() != cty.String {
			return nil, false
		}
		out[k] = v.AsString()
	}
	return out, true
}

// c11D11bOracle repeats, directly against the libraries, the calls Impl makes on these arguments.
func c11D11bOracle(model string, args []cty.Value) *oracle {
	o := newOracle()
	one := func(lib string, f func(string) string) {
		if ss, ok := c11D11bStrs(args, 0); ok && len(args) == 1 {
			r := f(ss[0])
			o.add(lib, ss, encStr(r))
			o.nfc(r)
		}
	}
	two := func(lib string, f func(a, b string) string) {
		if ss, ok := c11D11bStrs(args, 0, 1); ok && len(args) == 2 {
			r := f(ss[0], ss[1])
			o.add(lib, ss, encStr(r))
			o.nfc(r)
		}
	}
	switch model {
	case "upper":
		one("toUpper", strings.ToUpper)
	case "lower":
		one("toLower", strings.ToLower)
	case "title":
		one("title", strings.Title)
	case "trimspace":
		one("trimSpace", strings.TrimSpace)
	case "trim":
		two("trim", strings.Trim)
	case "trimprefix":
		two("trimPrefix", strings.TrimPrefix)
	case "trimsuffix":
		two("trimSuffix", strings.TrimSuffix)
	case "replace":
		if ss, ok := c11D11bStrs(args, 0, 1, 2); ok && len(args) == 3 {
			r := strings.Replace(ss[0], ss[1], ss[2], -1)
			o.add("replaceAll", ss, encStr(r))
			o.nfc(r)
		}
	case "regexreplace":
		if ss, ok := c11D11bStrs(args, 0, 1, 2); ok && len(args) == 3 {
			re, err := regexp.Compile(ss[1])
			if err != nil {
				o.add("regexCompile", []string{ss[1]}, "err")
			} else {
				o.add("regexCompile", []string{ss[1]}, encStrs(re.SubexpNames()[1:]))
				r := re.ReplaceAllString(ss[0], ss[2])
				o.add("regexReplaceAll", []string{ss[1], ss[0], ss[2]}, encStr(r))
				o.nfc(r)
			}
		}
	case "split":
		if ss, ok := c11D11bStrs(args, 0, 1); ok && len(args) == 2 {
			parts := strings.Split(ss[1], ss[0])
			o.add("split", []string{ss[1], ss[0]}, encStrs(parts))
			for _, p := range parts {
				o.nfc(p)
			}
		}
	case "timeadd":
		if ss, ok := c11D11bStrs(args, 0, 1); ok && len(args) == 2 {
			if t, tok := o.parseTimestamp(ss[0]); tok {
				d, err := time.ParseDuration(ss[1])
				o.add("parseDuration", []string{ss[1]}, encBool(err == nil))
				if err == nil {
					lib := t.Add(d).Format(time.RFC3339)
					o.add("timeAdd", ss, encStr(lib))
					o.nfc(lib)
				}
			}
		}
	case "chomp":
		if ss, ok := c11D11bStrs(args, 0); ok {
			o.nfc(strings.TrimRight(ss[0], "\r\n"))
		}
	case "indent":
		if ss, ok := c11D11bStrs(args, 1); ok && len(args) == 2 {
			o.nfc(ss[0])
			n, _ := args[0].UnmarkDeep()
			if n.IsKnown() && !n.IsNull() && n.Type() == cty.Number {
				if k, acc := n.AsBigFloat().Int64(); acc == 0 && k >= 0 && k <= 4096 {
					o.nfc(strings.ReplaceAll(ss[0], "\n", "\n"+strings.Repeat(" ", int(k))))
				}
			}
		}
	case "strreverse":
		if ss, ok := c11D11bStrs(args, 0); ok {
			cs := o.clusters(ss[0])
			rev := make([]string, len(cs))
			for j := range cs {
				rev[len(cs)-1-j] = cs[j]
			}
			o.nfc(strings.Join(rev, ""))
		}
	case "substr":
		if ss, ok := c11D11bStrs(args, 0); ok {
			cs := o.clusters(ss[0])
			// whatever offset and length select, the result is a contiguous run of clusters
			if len(cs) <= 16 {
				for i := 0; i <= len(cs); i++ {
					for j := i; j <= len(cs); j++ {
						o.nfc(strings.Join(cs[i:j], ""))
					}
				}
			}
		}
	}
	return o
}

func c11D11bGlueCorrespondence(ctx *Ctx) {
	per := ctx.N(250, 1500)
	for _, e := range c11d11bGlue {
		ps := e.f.Params()
		fn := c11Fn{e.goVar, e.f, true}
		for k := 0; k < per; k++ {
			inject := k%3 != 0
			args := make([]cty.Value, len(ps))
			for i := range args {
				args[i] = c11GenArg(ctx, e.goVar, i, ps[i], inject)
			}
			args = c11ApplyBoundaries(ctx, fn, args, inject)
			if inject && ctx.R.Intn(40) == 0 && len(args) > 0 {
				args = args[:len(args)-1]
			}
			r := c11D11bInvoke(e.f, args)
			o := c11D11bOracle(e.model, args)
			if rv, _ := r.val.UnmarkDeep(); r.class == "ok" && rv.Type() == cty.String && rv.IsKnown() && !rv.IsNull() {
				// a fact about the real library: the result (and, for the functions that build it from pieces the
				// library does not see, the string handed to cty.StringVal) is recorded with its NFC form
				o.nfc(rv.AsString())
			}
			ctx.Add("d11b.glue", r.wire(), e.model, c13EncArgs(args), o.wire())
			ctx.Tag("d11b:" + e.model + ":" + r.class)
		}
	}
}
