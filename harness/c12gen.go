package main

// C12 generator, structured half (slice d12).
//
// The random half (c12.go: c11GenArg + weakenTuple) rarely produces what the
// functions with collection arguments branch on: two sequence arguments of the
// SAME length >= 2, one of them with an unknown member that is not the last one
// (formatlist's lagging iterators, /repo 86fdf13), a set with one unknown
// member next to a known set, a map whose values are partly unknown next to a
// refined unknown key, …  This file generates, for every function that has a
// collection / structural / dynamically typed parameter:
//
//   - concrete argument lists whose collection arguments all have n = 2..3 members
//     (tuples and objects too; member collections have 1..2 members), often of ONE
//     type for all dynamically typed parameters so that unification succeeds, and
//     format strings with as many verbs as there are arguments;
//   - SYSTEMATIC weakenings: an unknown member at EACH position of each collection
//     argument; at each position one level further down; the same position in ALL
//     collection arguments at once; a pair of positions in two different
//     arguments; a wholly unknown REFINED argument (length bounds, prefix, numeric
//     bounds, not-null — all true of the replaced value) next to a partly unknown
//     other argument.

import (
	"strings"

	"github.com/zclconf/go-cty/cty"
	"github.com/zclconf/go-cty/cty/function"
)

// c12HasCollParam: the function takes a collection / structural / dynamically typed argument.
func c12HasCollParam(f function.Function) bool {
	is := func(t cty.Type) bool {
		return t == cty.DynamicPseudoType || t.IsCollectionType() || t.IsTupleType() || t.IsObjectType()
	}
	for _, p := range f.Params() {
		if is(p.Type) {
			return true
		}
	}
	if vp := f.VarParam(); vp != nil && is(vp.Type) {
		return true
	}
	return false
}

// c12Resize instantiates the placeholders of t and gives every tuple / object n members.
func c12Resize(ctx *Ctx, t cty.Type, n int, depth int) cty.Type {
	r := ctx.R
	prim := func() cty.Type { return []cty.Type{cty.String, cty.Number, cty.Bool}[r.Intn(3)] }
	switch {
	case t == cty.DynamicPseudoType:
		return prim()
	case t.IsListType():
		return cty.List(c12Resize(ctx, t.ElementType(), 1+r.Intn(2), depth-1))
	case t.IsSetType():
		return cty.Set(c12Resize(ctx, t.ElementType(), 1+r.Intn(2), depth-1))
	case t.IsMapType():
		return cty.Map(c12Resize(ctx, t.ElementType(), 1+r.Intn(2), depth-1))
	case t.IsTupleType():
		es := make([]cty.Type, n)
		old := t.TupleElementTypes()
		for i := range es {
			if i < len(old) && depth > 0 {
				es[i] = c12Resize(ctx, old[i], 1+r.Intn(2), depth-1)
			} else {
				es[i] = prim()
			}
		}
		return cty.Tuple(es)
	case t.IsObjectType():
		atys := map[string]cty.Type{}
		old := t.AttributeTypes()
		ks := sortedKeys(old)
		for i := 0; i < n; i++ {
			if i < len(ks) && depth > 0 {
				atys[ks[i]] = c12Resize(ctx, old[ks[i]], 1+r.Intn(2), depth-1)
			} else {
				atys[attrNames[i%len(attrNames)]] = prim()
			}
		}
		return cty.Object(atys)
	}
	return t
}

var c12Keys = []string{"a", "b", "k", "é", "zz", "m"}

// c12Coll builds a wholly known value of the concrete type t whose collections have exactly n
// members at the top (set members may coalesce) and 1..2 one level down.
func c12Coll(ctx *Ctx, t cty.Type, n int, depth int) cty.Value {
	r := ctx.R
	o := ValOpts{NoInf: true, Small: r.Intn(2) == 0}
	sub := func(et cty.Type) cty.Value {
		if depth > 0 && (et.IsCollectionType() || et.IsTupleType() || et.IsObjectType()) {
			return c12Coll(ctx, et, 1+r.Intn(2), depth-1)
		}
		return genVal(r, et, 1, o)
	}
	switch {
	case t.IsListType() || t.IsSetType():
		vs := make([]cty.Value, n)
		for i := range vs {
			vs[i] = sub(t.ElementType())
		}
		if n == 0 {
			if t.IsListType() {
				return cty.ListValEmpty(t.ElementType())
			}
			return cty.SetValEmpty(t.ElementType())
		}
		if t.IsListType() {
			return cty.ListVal(vs)
		}
		return cty.SetVal(vs)
	case t.IsMapType():
		if n == 0 {
			return cty.MapValEmpty(t.ElementType())
		}
		vs := map[string]cty.Value{}
		for i := 0; i < n; i++ {
			vs[c12Keys[i%len(c12Keys)]] = sub(t.ElementType())
		}
		return cty.MapVal(vs)
	case t.IsTupleType():
		es := t.TupleElementTypes()
		vs := make([]cty.Value, len(es))
		for i := range es {
			vs[i] = sub(es[i])
		}
		return cty.TupleVal(vs)
	case t.IsObjectType():
		vs := map[string]cty.Value{}
		atys := t.AttributeTypes()
		for _, k := range sortedKeys(atys) {
			vs[k] = sub(atys[k])
		}
		return cty.ObjectVal(vs)
	}
	return genVal(r, t, 1, o)
}

// c12StructArgs generates one concrete argument list for fn (see the file comment).
func c12StructArgs(ctx *Ctx, fn c11Fn) []cty.Value {
	r := ctx.R
	ps := fn.f.Params()
	vp := fn.f.VarParam()
	n := 2 + r.Intn(2)
	nargs := len(ps)
	if vp != nil {
		nargs += 1 + r.Intn(3)
		if r.Intn(8) == 0 {
			nargs = len(ps)
		}
	}
	oneType := r.Intn(3) != 0
	var shared cty.Type = cty.NilType
	args := make([]cty.Value, nargs)
	for i := range args {
		p := vp
		if i < len(ps) {
			p = &ps[i]
		}
		t := p.Type
		switch {
		case t == cty.DynamicPseudoType && strings.HasPrefix(fn.name, "MakeToFunc(") && r.Intn(4) != 0:
			// a value of the target type, or of a type that converts to it
			tt := cty.String
			for _, c := range c12ToTargets {
				if fn.name == "MakeToFunc("+encTy(c)+")" {
					tt = c
				}
			}
			if tt == cty.DynamicPseudoType {
				tt = c12Resize(ctx, genTy(r, 1, TyOpts{}), n, 1)
			}
			switch {
			case tt.IsListType() && r.Intn(3) == 0:
				tt = cty.Set(tt.ElementType())
			case tt.IsSetType() && r.Intn(3) == 0:
				tt = cty.List(tt.ElementType())
			case tt.IsMapType() && r.Intn(3) == 0:
				tt = cty.Object(map[string]cty.Type{"a": tt.ElementType(), "b": tt.ElementType()})
			}
			args[i] = c12Coll(ctx, tt, n, 1)
		case t == cty.DynamicPseudoType:
			if oneType && shared != cty.NilType && r.Intn(6) != 0 {
				t = shared
			} else {
				t = c12Resize(ctx, c11DynType(ctx, fn.name, i), n, 1)
				if r.Intn(3) == 0 && (fn.name == "FormatListFunc" || fn.name == "FormatFunc") {
					t = []cty.Type{cty.List(cty.String), cty.List(cty.Number), cty.Set(cty.String), cty.Tuple([]cty.Type{cty.String, cty.Number, cty.Bool}[:n])}[r.Intn(4)]
				}
				if shared == cty.NilType {
					shared = t
				}
			}
			args[i] = c12Coll(ctx, t, n, 1)
		case t.IsCollectionType() || t.IsTupleType() || t.IsObjectType():
			t = c12Resize(ctx, t, n, 1)
			if t.HasDynamicTypes() {
				args[i] = c11GenArg(ctx, fn.name, i, *p, false)
			} else {
				args[i] = c12Coll(ctx, t, n, 1)
			}
		default:
			args[i] = c11GenArg(ctx, fn.name, i, *p, false)
		}
		args[i], _ = args[i].UnmarkDeep()
	}
	// format strings with as many verbs as arguments
	if (fn.name == "FormatListFunc" || fn.name == "FormatFunc") && nargs > 1 && r.Intn(5) != 0 {
		vs := make([]string, nargs-1)
		for i := range vs {
			vs[i] = []string{"%v", "%s", "%v", "%#v", "%q"}[r.Intn(5)]
		}
		f := strings.Join(vs, []string{" ", "-", ""}[r.Intn(3)])
		if r.Intn(3) == 0 {
			// a literal text before the first verb, with escaped percent signs: the prefix refinement of the
			// unknown result must be the TEXT ("100% of "), not the format's spelling ("100%% of ")
			// (a seeded change skipped doubled %% when looking for the first verb and kept the raw spelling)
			f = []string{"100%% of ", "%%", "a%%b%% ", "%%%%", "x=", "é%% ", "rate: 5%%, "}[r.Intn(7)] + f
		}
		args[0] = cty.StringVal(f)
	}
	// small in-range indices for the positional functions
	switch fn.name {
	case "ElementFunc", "IndexFunc", "HasIndexFunc":
		if nargs == 2 && r.Intn(5) != 0 {
			t0 := args[0].Type()
			switch {
			case t0.IsListType() || t0.IsTupleType() || t0.IsSetType():
				args[1] = cty.NumberIntVal(int64(r.Intn(n)))
			case t0.IsMapType() || t0.IsObjectType():
				if ks, _ := c12Members(args[0]); len(ks) > 0 {
					args[1] = ks[r.Intn(len(ks))]
				}
			}
		}
	case "SliceFunc":
		if nargs == 3 && r.Intn(4) != 0 {
			a := r.Intn(n + 1)
			args[1], args[2] = cty.NumberIntVal(int64(a)), cty.NumberIntVal(int64(a+r.Intn(n+1-a)))
		}
	case "ChunklistFunc":
		if nargs == 2 && r.Intn(4) != 0 {
			args[1] = cty.NumberIntVal(int64(1 + r.Intn(3)))
		}
	case "LookupFunc":
		if nargs == 3 && r.Intn(3) != 0 {
			args[1] = cty.StringVal(c12Keys[r.Intn(3)])
		}
	case "ParseIntFunc":
		if nargs == 2 && r.Intn(5) != 0 {
			b := []int64{2, 8, 10, 16, 36}[r.Intn(5)]
			args[0] = cty.StringVal([]string{"0", "1", "-1", "10", "101", "-7", "77"}[r.Intn(7)])
			if b >= 16 && r.Intn(2) == 0 {
				args[0] = cty.StringVal([]string{"ff", "FF", "-a", "1f"}[r.Intn(4)])
			}
			args[1] = cty.NumberIntVal(b)
		}
	case "BytesSliceFunc":
		if nargs == 3 && r.Intn(5) != 0 {
			l := 0
			try(func() { l = len(*(args[0].EncapsulatedValue().(*[]byte))) })
			a := r.Intn(l + 1)
			args[1], args[2] = cty.NumberIntVal(int64(a)), cty.NumberIntVal(int64(r.Intn(l+1-a)))
		}
	case "ContainsFunc", "SetHasElementFunc":
		// a quarter of the time the haystack is a collection of COMPOUND members (objects, tuples, lists),
		// so that a weakening INSIDE the needle is possible (a seeded change answered a definite False for
		// such a needle through the set's hash lookup and was first found only by the intensified search)
		if nargs == 2 && r.Intn(4) == 0 {
			k := 2 + r.Intn(2)
			ms := make([]cty.Value, k)
			shape := r.Intn(3)
			for i := range ms {
				a, b := cty.NumberIntVal(int64(r.Intn(4))), cty.StringVal(c12Keys[r.Intn(3)])
				switch shape {
				case 0:
					ms[i] = cty.ObjectVal(map[string]cty.Value{"age": a, "name": b})
				case 1:
					ms[i] = cty.TupleVal([]cty.Value{a, b})
				default:
					ms[i] = cty.ListVal([]cty.Value{a, cty.NumberIntVal(int64(r.Intn(4)))})
				}
			}
			switch h := r.Intn(3); {
			case h == 0 || fn.name == "SetHasElementFunc":
				args[0] = cty.SetVal(ms)
			case h == 1:
				args[0] = cty.ListVal(ms)
			default:
				args[0] = cty.TupleVal(ms)
			}
			args[1] = ms[r.Intn(k)]
			return args
		}
		// half of the time ask for a member that is there
		if nargs == 2 && r.Intn(2) == 0 {
			if _, vs := c12Members(args[0]); len(vs) > 0 {
				args[1] = vs[r.Intn(len(vs))]
			}
		}
	}
	return args
}

// members of a known, non-null collection / structural value in iteration order (nil otherwise)
func c12Members(v cty.Value) (keys []cty.Value, vals []cty.Value) {
	if v.IsMarked() || !v.IsKnown() || v.IsNull() {
		return nil, nil
	}
	t := v.Type()
	if !(t.IsCollectionType() || t.IsTupleType() || t.IsObjectType()) {
		return nil, nil
	}
	try(func() {
		for it := v.ElementIterator(); it.Next(); {
			k, e := it.Element()
			keys = append(keys, k)
			vals = append(vals, e)
		}
	})
	return
}

// c12Rebuild builds the value of v's type with the given members (same keys)
func c12Rebuild(v cty.Value, keys, vals []cty.Value) cty.Value {
	t := v.Type()
	switch {
	case t.IsListType():
		return cty.ListVal(vals)
	case t.IsSetType():
		return cty.SetVal(vals)
	case t.IsTupleType():
		return cty.TupleVal(vals)
	}
	m := map[string]cty.Value{}
	for i, k := range keys {
		m[k.AsString()] = vals[i]
	}
	if t.IsMapType() {
		return cty.MapVal(m)
	}
	return cty.ObjectVal(m)
}

// c12UnknownOf: an unknown true of v; refined (when v's type has refinements) 3 times out of 4,
// never with a placeholder inside the type constraint (that root cause is recorded and has its own cases).
func c12UnknownOf(ctx *Ctx, v cty.Value, st *wkStats) cty.Value {
	if ctx.R.Intn(4) == 0 {
		st.hit("unrefined")
		return cty.UnknownVal(v.Type())
	}
	for k := 0; k < 6; k++ {
		u, kind := unknownTrueOf(ctx, v)
		if kind == "type-with-placeholder-inside" || (kind == "unrefined" && k < 5) {
			continue
		}
		st.hit(kind)
		return u
	}
	st.hit("unrefined")
	return cty.UnknownVal(v.Type())
}

// c12At replaces the member at path (1 or 2 steps, iteration order) of v by an unknown true of it.
func c12At(ctx *Ctx, v cty.Value, path []int, st *wkStats) (cty.Value, bool) {
	if len(path) == 0 {
		if !v.IsKnown() {
			return v, false
		}
		return c12UnknownOf(ctx, v, st), true
	}
	keys, vals := c12Members(v)
	if path[0] >= len(vals) {
		return v, false
	}
	nv, ok := c12At(ctx, vals[path[0]], path[1:], st)
	if !ok {
		return v, false
	}
	out := make([]cty.Value, len(vals))
	copy(out, vals)
	out[path[0]] = nv
	ret := v
	if p, _ := try(func() { ret = c12Rebuild(v, keys, out) }); p {
		return v, false
	}
	return ret, true
}

type c12Weak struct {
	ws     []cty.Value
	st     *wkStats
	scheme string
}

// c12Systematic lists the systematic weakenings of a concrete argument list (capped at max).
func c12Systematic(ctx *Ctx, args []cty.Value, max int) []c12Weak {
	r := ctx.R
	var out []c12Weak
	var colls []int
	lens := map[int]int{}
	for i, a := range args {
		if _, vs := c12Members(a); len(vs) > 0 {
			colls = append(colls, i)
			lens[i] = len(vs)
		}
	}
	with := func(scheme string, f func(ws []cty.Value, st *wkStats) bool) {
		ws := make([]cty.Value, len(args))
		copy(ws, args)
		st := &wkStats{}
		if f(ws, st) && st.positions > 0 {
			out = append(out, c12Weak{ws, st, scheme})
		}
	}
	set := func(ws []cty.Value, st *wkStats, a int, path ...int) bool {
		nv, ok := c12At(ctx, ws[a], path, st)
		if ok {
			ws[a] = nv
		}
		return ok
	}
	// 1. an unknown member at each position of each collection argument
	for _, a := range colls {
		for j := 0; j < lens[a]; j++ {
			a, j := a, j
			with("member", func(ws []cty.Value, st *wkStats) bool { return set(ws, st, a, j) })
		}
	}
	// 2. one level further down
	for _, a := range colls {
		_, vs := c12Members(args[a])
		for j, m := range vs {
			_, ms := c12Members(m)
			for k := range ms {
				a, j, k := a, j, k
				with("nested-member", func(ws []cty.Value, st *wkStats) bool { return set(ws, st, a, j, k) })
			}
		}
	}
	if len(colls) >= 2 {
		// 3. the same position in all collection arguments at once
		minLen := -1
		for _, a := range colls {
			if minLen < 0 || lens[a] < minLen {
				minLen = lens[a]
			}
		}
		for j := 0; j < minLen; j++ {
			j := j
			with("same-position-in-all", func(ws []cty.Value, st *wkStats) bool {
				ok := false
				for _, a := range colls {
					if set(ws, st, a, j) {
						ok = true
					}
				}
				return ok
			})
		}
		// 4. a pair of positions in two different arguments
		for x := 0; x < len(colls); x++ {
			for y := x + 1; y < len(colls); y++ {
				a, b := colls[x], colls[y]
				with("pair", func(ws []cty.Value, st *wkStats) bool {
					ok1 := set(ws, st, a, r.Intn(lens[a]))
					ok2 := set(ws, st, b, r.Intn(lens[b]))
					return ok1 || ok2
				})
			}
		}
	}
	// 5. one argument wholly unknown (refined), another partly unknown
	for i := range args {
		i := i
		with("whole-refined", func(ws []cty.Value, st *wkStats) bool {
			if !set(ws, st, i) {
				return false
			}
			if len(colls) > 0 && r.Intn(2) == 0 {
				b := colls[r.Intn(len(colls))]
				if b != i {
					set(ws, st, b, r.Intn(lens[b]))
				}
			}
			return true
		})
	}
	if len(out) > max {
		// keep a random subset, in order (every draw from ctx.R)
		keep := r.Perm(len(out))[:max]
		mark := map[int]bool{}
		for _, k := range keep {
			mark[k] = true
		}
		var sel []c12Weak
		for i, w := range out {
			if mark[i] {
				sel = append(sel, w)
			}
		}
		out = sel
	}
	return out
}

// c12NestedUnknown: some argument is known at its top and holds an unknown member
func c12NestedUnknown(ws []cty.Value) bool {
	for _, w := range ws {
		if w.IsKnown() && !w.IsWhollyKnown() {
			return true
		}
	}
	return false
}

// regression witnesses ("case 0"): defects of /repo that this check found and that were repaired
type c12Reg struct {
	fn     string
	os, ws []cty.Value
}

func c12Regressions() []c12Reg {
	s := cty.StringVal
	l := func(vs ...cty.Value) cty.Value { return cty.ListVal(vs) }
	// jsondecode looks at the refined prefix of an unknown string to predict the type or to refuse early: documents
	// with every kind of JSON whitespace in front, weakened to an unknown with each true prefix (a seeded change
	// skipped space, tab and LF but not CR: the known call succeeded, the weakened one failed)
	var jd []c12Reg
	for _, ws := range []string{"\r\n", "\r", " \r ", "\n\r ", "\t\r\n  ", " ", "\n", "\t \n"} {
		for _, doc := range []string{`"hello"`, "true", "12", "[1]", `{"a":1}`, "null"} {
			full := ws + doc
			for n := 1; n <= len(ws)+2 && n <= len(full); n++ {
				var w cty.Value
				if p, _ := try(func() { w = cty.UnknownVal(cty.String).Refine().NotNull().StringPrefixFull(full[:n]).NewValue() }); p {
					continue
				}
				jd = append(jd, c12Reg{"JSONDecodeFunc", []cty.Value{s(full)}, []cty.Value{w}})
			}
		}
	}
	// contains on a SET haystack with a structural needle that holds an unknown (a seeded change answered from
	// HasElement, which says false for such a needle); also tuples and lists as members, refined and unrefined unknowns
	{
		o := func(name cty.Value, age int64) cty.Value {
			return cty.ObjectVal(map[string]cty.Value{"name": name, "age": cty.NumberIntVal(age)})
		}
		hay := cty.SetVal([]cty.Value{o(s("ann"), 31), o(s("bob"), 47)})
		for _, u := range []cty.Value{cty.UnknownVal(cty.String), cty.UnknownVal(cty.String).RefineNotNull(), cty.UnknownVal(cty.String).Refine().NotNull().StringPrefixFull("a").NewValue()} {
			jd = append(jd, c12Reg{"ContainsFunc", []cty.Value{hay, o(s("ann"), 31)}, []cty.Value{hay, o(u, 31)}})
			jd = append(jd, c12Reg{"SetHasElementFunc", []cty.Value{hay, o(s("ann"), 31)}, []cty.Value{hay, o(u, 31)}})
		}
		tup := func(a, b cty.Value) cty.Value { return cty.TupleVal([]cty.Value{a, b}) }
		hayT := cty.SetVal([]cty.Value{tup(s("x"), cty.True), tup(s("y"), cty.False)})
		jd = append(jd, c12Reg{"ContainsFunc", []cty.Value{hayT, tup(s("x"), cty.True)}, []cty.Value{hayT, tup(s("x"), cty.UnknownVal(cty.Bool))}})
		hayL := cty.SetVal([]cty.Value{l(s("p"), s("q")), l(s("r"))})
		jd = append(jd, c12Reg{"ContainsFunc", []cty.Value{hayL, l(s("p"), s("q"))}, []cty.Value{hayL, l(s("p"), cty.UnknownVal(cty.String))}})
	}
	return append(jd, []c12Reg{
		// escaped percent signs before the first verb and an unknown argument (prefix refinement of format)
		{"FormatFunc", []cty.Value{s("100%% of %s"), s("disk")}, []cty.Value{s("100%% of %s"), cty.UnknownVal(cty.String)}},
		{"FormatFunc", []cty.Value{s("%%%s"), s("x")}, []cty.Value{s("%%%s"), cty.UnknownVal(cty.String).RefineNotNull()}},
		{"FormatFunc", []cty.Value{s("a%%b%% %v!"), cty.NumberIntVal(7)}, []cty.Value{s("a%%b%% %v!"), cty.UnknownVal(cty.Number)}},
		// /repo 86fdf13: formatlist kept the later iterators one element behind after an unknown element
		{"FormatListFunc", []cty.Value{s("%s %s"), l(s("b"), s("a")), l(s("x"), s("y"))},
			[]cty.Value{s("%s %s"), l(cty.UnknownVal(cty.String), s("a")), l(s("x"), s("y"))}},
		{"FormatListFunc", []cty.Value{s("%s%s%s"), l(s("b"), s("a"), s("c")), cty.TupleVal([]cty.Value{s("x"), cty.True, cty.Zero}), l(s("p"), s("q"), s("r"))},
			[]cty.Value{s("%s%s%s"), l(s("b"), cty.UnknownVal(cty.String).RefineNotNull(), s("c")), cty.TupleVal([]cty.Value{cty.UnknownVal(cty.String), cty.True, cty.Zero}), l(s("p"), s("q"), s("r"))}},
	}...)
}

// c12CostlySet: v holds a known set with more than 6 members that is not wholly known
func c12CostlySet(v cty.Value) bool {
	costly := false
	var walk func(v cty.Value)
	walk = func(v cty.Value) {
		if v.IsMarked() || !v.IsKnown() || v.IsNull() {
			return
		}
		t := v.Type()
		if t.IsSetType() && !v.IsWhollyKnown() && v.LengthInt() > 6 {
			costly = true
			return
		}
		if t.IsCollectionType() || t.IsTupleType() || t.IsObjectType() {
			for it := v.ElementIterator(); it.Next(); {
				_, e := it.Element()
				walk(e)
			}
		}
	}
	try(func() { walk(v) })
	return costly
}

// functions without a collection parameter whose domain the structured generator knows
var c12Shaped = map[string]bool{"BytesSliceFunc": true}

var c12ToTargets = []cty.Type{cty.String, cty.Number, cty.Bool, cty.List(cty.String), cty.Set(cty.Number), cty.Map(cty.Bool),
	cty.Object(map[string]cty.Type{"a": cty.String, "b": cty.Number}), cty.Tuple([]cty.Type{cty.String, cty.Bool}), cty.DynamicPseudoType}

// c12EqualsBoundDefect: the recorded C01 defect "inclusive-bound-equal-in-value-other-precision" reproduces on a
// (concrete number, unknown number that replaced it) pair of this input: Value.Equals answers a definite False
// although the unknown's inclusive bound has the very value of the number (stored at another precision).
func c12EqualsBoundDefect(os, ws []cty.Value) bool {
	hit := false
	var walk func(o, w cty.Value)
	walk = func(o, w cty.Value) {
		if o.IsMarked() || w.IsMarked() || !o.IsKnown() || o.IsNull() {
			return
		}
		if !w.IsKnown() {
			if o.Type() == cty.Number && w.Type() == cty.Number {
				eq := o.Equals(w)
				if eq.IsKnown() && eq.False() {
					hit = true
				}
			}
			return
		}
		_, om := c12Members(o)
		_, wm := c12Members(w)
		if o.Type().IsSetType() {
			for _, a := range om {
				for _, b := range wm {
					if a.Type().Equals(b.Type()) {
						walk(a, b)
					}
				}
			}
			return
		}
		for i := range om {
			if i < len(wm) {
				walk(om[i], wm[i])
			}
		}
	}
	for i := range os {
		if i < len(ws) {
			o, w := os[i], ws[i]
			try(func() { walk(o, w) })
		}
	}
	return hit
}

// exported stdlib function -> name of its model in lean/CtyModel/Stdlib/Funcs.lean (byName)
var c12Modelled = map[string]string{
	"LengthFunc": "length", "HasIndexFunc": "hasindex", "IndexFunc": "index", "ElementFunc": "element",
	"CoalesceListFunc": "coalescelist", "CoalesceFunc": "coalesce", "CompactFunc": "compact", "ContainsFunc": "contains",
	"DistinctFunc": "distinct", "ChunklistFunc": "chunklist", "FlattenFunc": "flatten", "KeysFunc": "keys", "ValuesFunc": "values",
	"LookupFunc": "lookup", "MergeFunc": "merge", "ReverseListFunc": "reverse", "SliceFunc": "slice", "ZipmapFunc": "zipmap",
	"SortFunc": "sort", "SetProductFunc": "setproduct", "ConcatFunc": "concat", "RangeFunc": "range",
	"SetHasElementFunc": "sethaselement", "SetUnionFunc": "setunion", "SetIntersectionFunc": "setintersection",
	"SetSubtractFunc": "setsubtract", "SetSymmetricDifferenceFunc": "setsymmetricdifference",
}

// ---- near-equal twins ------------------------------------------------------------------------------
//
// Functions that RELATE two arguments or two members (contains, index/lookup/element keys, the set
// algebra, coalesce, equal/notequal, distinct, …) decide by comparing values.  A comparison that is
// too eager — one that takes two unknown placeholders "of the same type and refinements" for the same
// value — only shows when BOTH sides carry an identical unknown at the SAME nested position while the
// concrete values at that position differ and everything else is known and equal.  Independent random
// weakening of independent random arguments practically never produces that, so it is generated on
// purpose, for every function alike:
//
//   twin-argument   another argument becomes a copy of argument i that differs in exactly one nested leaf
//   twin-of-member  another argument becomes a copy of a MEMBER of collection argument i, differing in one leaf
//   twin-members    a member of collection argument i becomes such a copy of another member of it
//
// and in the weakened list that one leaf is replaced ON BOTH SIDES by the very same unknown value
// (unrefined, or refined identically with refinements true of both originals: not-null, their common
// prefix, numeric bounds around both).

// c12OtherLeaf: a value of the same primitive type as l, different from it (for strings: sharing a prefix)
func c12OtherLeaf(ctx *Ctx, l cty.Value) (cty.Value, bool) {
	r := ctx.R
	switch l.Type() {
	case cty.String:
		s := l.AsString()
		cut := 0
		for i := range s {
			if i > 0 && r.Intn(2) == 0 {
				cut = i
			}
		}
		if r.Intn(3) == 0 {
			cut = len(s)
		}
		for _, suf := range []string{"a", "bbb", "z", "-x", ""} {
			if n := cty.StringVal(s[:cut] + suf); !n.RawEquals(l) {
				return n, true
			}
		}
	case cty.Number:
		var o cty.Value
		if p, _ := try(func() { o = l.Add(cty.NumberIntVal(int64(1 + r.Intn(3)))) }); !p && o.IsKnown() && !o.RawEquals(l) {
			return o, true
		}
	case cty.Bool:
		return l.Not(), true
	}
	return cty.NilVal, false
}

// c12CommonUnknown: an unknown value true of BOTH a and b (same primitive type, known, not null)
func c12CommonUnknown(ctx *Ctx, a, b cty.Value) (cty.Value, string) {
	r := ctx.R
	t := a.Type()
	u, kind := cty.UnknownVal(t), "unrefined"
	if r.Intn(3) == 0 {
		return u, kind
	}
	try(func() {
		bld := cty.UnknownVal(t).Refine()
		k := ""
		if r.Intn(3) != 0 {
			bld = bld.NotNull()
			k = "notnull"
		}
		switch t {
		case cty.String:
			x, y := a.AsString(), b.AsString()
			n := 0
			for i := range x { // rune boundaries of x
				if i <= len(y) && x[:i] == y[:i] {
					n = i
				}
			}
			if len(x) <= len(y) && y[:len(x)] == x {
				n = len(x)
			}
			if n > 0 && r.Intn(4) != 0 {
				if r.Intn(2) == 0 {
					bld = bld.StringPrefixFull(x[:n])
					k += "+prefix-full"
				} else {
					bld = bld.StringPrefix(x[:n])
					k += "+prefix-safe"
				}
			}
		case cty.Number:
			lo, hi := a, b
			if a.GreaterThan(b).True() {
				lo, hi = b, a
			}
			if r.Intn(2) == 0 {
				bld = bld.NumberRangeLowerBound(lo.Subtract(cty.NumberIntVal(int64(r.Intn(2)))), true)
				k += "+lo-incl"
			}
			if r.Intn(2) == 0 {
				bld = bld.NumberRangeUpperBound(hi.Add(cty.NumberIntVal(int64(r.Intn(2)))), true)
				k += "+hi-incl"
			}
		}
		if k != "" {
			u, kind = bld.NewValue(), k
		}
	})
	return u, kind
}

// c12Twin picks one nested leaf of v and returns: twin (v with that leaf changed), wv and wtwin (v and twin
// with that leaf replaced by the same unknown, true of both leaves).
func c12Twin(ctx *Ctx, v cty.Value, depth int, st *wkStats) (twin, wv, wtwin cty.Value, ok bool) {
	if v.IsMarked() || !v.IsKnown() || v.IsNull() {
		return
	}
	t := v.Type()
	if t == cty.String || t == cty.Number || t == cty.Bool {
		o, got := c12OtherLeaf(ctx, v)
		if !got {
			return
		}
		u, kind := c12CommonUnknown(ctx, v, o)
		st.hit(kind)
		st.hit(kind)
		return o, u, u, true
	}
	if depth <= 0 {
		return
	}
	keys, vals := c12Members(v)
	if len(vals) == 0 {
		return
	}
	start := ctx.R.Intn(len(vals))
	for d := 0; d < len(vals); d++ {
		k := (start + d) % len(vals)
		mt, mw, mwt, got := c12Twin(ctx, vals[k], depth-1, st)
		if !got {
			continue
		}
		build := func(m cty.Value) (cty.Value, bool) {
			out := make([]cty.Value, len(vals))
			copy(out, vals)
			out[k] = m
			var ret cty.Value
			if p, _ := try(func() { ret = c12Rebuild(v, keys, out) }); p {
				return cty.NilVal, false
			}
			return ret, true
		}
		a, ok1 := build(mt)
		b, ok2 := build(mw)
		c, ok3 := build(mwt)
		if ok1 && ok2 && ok3 {
			return a, b, c, true
		}
		return
	}
	return
}

type c12TwinCase struct {
	os, ws []cty.Value
	st     *wkStats
	scheme string
}

// c12Twins derives near-equal-twin cases from a concrete argument list (see the block comment).
func c12Twins(ctx *Ctx, fn c11Fn, args []cty.Value, max int) []c12TwinCase {
	r := ctx.R
	ps := fn.f.Params()
	vp := fn.f.VarParam()
	paramTy := func(i int) cty.Type {
		if i < len(ps) {
			return ps[i].Type
		}
		if vp != nil {
			return vp.Type
		}
		return cty.NilType
	}
	accepts := func(j int, t cty.Type) bool {
		pt := paramTy(j)
		return pt != cty.NilType && (pt == cty.DynamicPseudoType || len(t.TestConformance(pt)) == 0)
	}
	var out []c12TwinCase
	clone := func() []cty.Value { c := make([]cty.Value, len(args)); copy(c, args); return c }
	for i := range args {
		// twin-argument
		for j := range args {
			if j == i || !accepts(j, args[i].Type()) || r.Intn(2) == 0 {
				continue
			}
			st := &wkStats{}
			if tw, wv, wtw, ok := c12Twin(ctx, args[i], 3, st); ok {
				os, ws := clone(), clone()
				os[j] = tw
				ws[i], ws[j] = wv, wtw
				out = append(out, c12TwinCase{os, ws, st, "twin-argument"})
			}
		}
		keys, vals := c12Members(args[i])
		if len(vals) == 0 {
			continue
		}
		set := func(base cty.Value, repl map[int]cty.Value) (cty.Value, bool) {
			o := make([]cty.Value, len(vals))
			copy(o, vals)
			for k, m := range repl {
				o[k] = m
			}
			var ret cty.Value
			if p, _ := try(func() { ret = c12Rebuild(base, keys, o) }); p {
				return cty.NilVal, false
			}
			return ret, true
		}
		// twin-of-member
		for j := range args {
			k := r.Intn(len(vals))
			if j == i || !accepts(j, vals[k].Type()) {
				continue
			}
			st := &wkStats{}
			if tw, wv, wtw, ok := c12Twin(ctx, vals[k], 2, st); ok {
				if wi, ok2 := set(args[i], map[int]cty.Value{k: wv}); ok2 {
					os, ws := clone(), clone()
					os[j] = tw
					ws[i], ws[j] = wi, wtw
					out = append(out, c12TwinCase{os, ws, st, "twin-of-member"})
				}
			}
		}
		// twin-members (tuples and objects only when the two members have one type)
		if len(vals) >= 2 {
			k := r.Intn(len(vals))
			k2 := (k + 1 + r.Intn(len(vals)-1)) % len(vals)
			if vals[k].Type().Equals(vals[k2].Type()) {
				st := &wkStats{}
				if tw, wv, wtw, ok := c12Twin(ctx, vals[k], 2, st); ok {
					oi, ok1 := set(args[i], map[int]cty.Value{k2: tw})
					wi, ok2 := set(args[i], map[int]cty.Value{k: wv, k2: wtw})
					if ok1 && ok2 {
						os, ws := clone(), clone()
						os[i], ws[i] = oi, wi
						out = append(out, c12TwinCase{os, ws, st, "twin-members"})
					}
				}
			}
		}
	}
	if len(out) > max {
		perm := r.Perm(len(out))[:max]
		mark := map[int]bool{}
		for _, k := range perm {
			mark[k] = true
		}
		var sel []c12TwinCase
		for i, c := range out {
			if mark[i] {
				sel = append(sel, c)
			}
		}
		out = sel
	}
	return out
}
