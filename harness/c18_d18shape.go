package main

// C18, "exact or refuses" judged at every depth.
//
// c18Verdict is the property's own reading of "does this cty value fit this Go
// target", computed only from the public type information (cty.Type / reflect)
// and the value, never from what FromCtyValue answers:
//
//	must be refused  — an unknown value anywhere (outside a cty.Value target), a null
//	                   where the target can not be nil, a number that is not
//	                   representable in the numeric target, a kind the target has no
//	                   rule for, an array of another length, an object attribute
//	                   without a cty-tagged exported field, an attribute that is
//	                   missing although its field can not be nil, a tuple of another
//	                   length than the struct has fields;
//	must be accepted — none of these at any depth, and every null sits where the
//	                   target is a pointer/slice/map of the matching type;
//	not judged       — what the property does not decide (the float band between the
//	                   largest finite value and the rounding threshold, a null of a
//	                   non-matching type behind a pointer, null lists into pointers to
//	                   arrays (the recorded nil-pointer finding), capsules, empty
//	                   objects into structs without tagged fields, marked values).
//
// runC18NearMiss generates, for every struct type of the family (and structs
// nested below pointers, slices, maps and other structs), object values whose
// attribute set is a systematic near miss of the struct's tags: one stray, one
// nilable attribute missing, both at once (the stray a typo / case variant /
// unrelated name), as many strays as missing ones, more, fewer, a missing required
// attribute, a renamed one, a stray holding null, an attribute name in another
// Unicode normal form (which cty normalises, so it is NOT a mismatch).

import (
	"fmt"
	"math"
	"math/big"
	"reflect"
	"sort"
	"strings"
	"unicode"

	"github.com/zclconf/go-cty/cty"
	"github.com/zclconf/go-cty/cty/gocty"
	"golang.org/x/text/unicode/norm"
)

type c18V int

const (
	c18Any c18V = iota
	c18MustOk
	c18MustErr
)

func (v c18V) String() string { return [...]string{"any", "must-ok", "must-err"}[v] }

// struct types added for the near-miss experiment (members of the family as well)
type c18Srv struct {
	Name string            `cty:"name"`
	Port *int              `cty:"port"`
	Tags map[string]string `cty:"tags"`
	Al   []string          `cty:"al"`
}

type c18Uni struct {
	E  int     `cty:"é"`  // é, NFC
	U  *string `cty:"üx"` // üx, NFC
	Lo bool    `cty:"lo"`
}

type c18AllNilable struct {
	P *int           `cty:"p"`
	Q **string       `cty:"q"`
	S []int          `cty:"s"`
	M map[string]int `cty:"m"`
}

type c18Outer struct {
	In  c18Srv            `cty:"in"`
	PIn *c18Srv           `cty:"pin"`
	L   []c18Srv          `cty:"l"`
	M   map[string]c18Srv `cty:"m"`
}

var c18ExtraFamily = []c18Fam{
	{c18T(new(c18Srv)), true, false}, {c18T(new(c18Uni)), true, false}, {c18T(new(c18AllNilable)), true, false}, {c18T(new(c18Outer)), true, false},
	{c18T(new(*c18Srv)), true, false}, {c18T(new([]c18AllNilable)), true, false},
}

func init() { c18Family = append(c18Family, c18ExtraFamily...) }

// c18TagIndex is what the documentation of the cty struct tag says: attribute name -> field;
// of two fields with one tag the later one (helpers.go keeps the last).
func c18TagIndex(st reflect.Type) map[string]int {
	m := map[string]int{}
	for i := 0; i < st.NumField(); i++ {
		if t := st.Field(i).Tag.Get("cty"); t != "" {
			m[t] = i
		}
	}
	return m
}

func c18NilableField(ft reflect.Type) bool {
	switch ft.Kind() {
	case reflect.Ptr, reflect.Slice, reflect.Map, reflect.Interface:
		return true
	}
	return false
}

var (
	c18MaxF64 = new(big.Float).SetFloat64(math.MaxFloat64)
	c18MaxF32 = new(big.Float).SetFloat64(math.MaxFloat32)
	c18Thr64  = new(big.Float).SetPrec(2048).Sub(new(big.Float).SetMantExp(big.NewFloat(1), 1024), new(big.Float).SetMantExp(big.NewFloat(1), 970))
	c18Thr32  = new(big.Float).SetPrec(2048).Sub(new(big.Float).SetMantExp(big.NewFloat(1), 128), new(big.Float).SetMantExp(big.NewFloat(1), 103))
)

// c18NumVerdict: "succeeds exactly when the number is representable there"
func c18NumVerdict(x *big.Float, base reflect.Type) (c18V, string) {
	switch base {
	case c18BigFloatT:
		return c18MustOk, ""
	case c18BigIntT:
		if !x.IsInf() && x.IsInt() {
			return c18MustOk, ""
		}
		return c18MustErr, "number that is not whole accepted by big.Int"
	}
	switch base.Kind() {
	case reflect.Int, reflect.Int8, reflect.Int16, reflect.Int32, reflect.Int64,
		reflect.Uint, reflect.Uint8, reflect.Uint16, reflect.Uint32, reflect.Uint64:
		if x.IsInf() || !x.IsInt() {
			return c18MustErr, "number that is not whole accepted by an integer target"
		}
		xi, _ := x.Int(nil)
		lo, hi := c18IntRange(base)
		if xi.Cmp(lo) < 0 || xi.Cmp(hi) > 0 {
			return c18MustErr, "number out of range accepted by an integer target"
		}
		return c18MustOk, ""
	case reflect.Float32, reflect.Float64:
		maxF, thr := c18MaxF64, c18Thr64
		if base.Kind() == reflect.Float32 {
			maxF, thr = c18MaxF32, c18Thr32
		}
		if x.IsInf() {
			return c18MustOk, ""
		}
		ax := new(big.Float).Abs(x)
		switch {
		case ax.Cmp(maxF) <= 0:
			return c18MustOk, ""
		case ax.Cmp(thr) >= 0:
			return c18MustErr, "finite number beyond the float range accepted"
		}
		return c18Any, ""
	}
	return c18MustErr, "number accepted by a target that is not numeric"
}

type c18Acc struct {
	v   c18V
	why string
}

func (a *c18Acc) add(v c18V, why string) {
	switch {
	case v == c18MustErr && a.v != c18MustErr:
		a.v, a.why = c18MustErr, why
	case v == c18Any && a.v == c18MustOk:
		a.v = c18Any
	}
}

// c18Verdict: see the head of the file.  The value must not contain marks.
func c18Verdict(v cty.Value, rt reflect.Type) (c18V, string) {
	depth, base := c18Depth(rt)
	if base == c18ValueT {
		return c18MustOk, "" // passed through as it is, the one place where unknown values are allowed
	}
	if base.Kind() == reflect.Interface {
		return c18Any, ""
	}
	if !v.IsKnown() {
		return c18MustErr, "unknown value decoded without error"
	}
	ty := v.Type()
	if v.IsNull() {
		if depth == 0 && base.Kind() != reflect.Slice && base.Kind() != reflect.Map {
			return c18MustErr, "null decoded into a non-nilable target without error"
		}
		bt, _, err := c18Bridge(rt)
		if err != nil || ty == cty.DynamicPseudoType || len(ty.TestConformance(bt)) != 0 {
			return c18Any, "" // a null of some other type
		}
		if base.Kind() == reflect.Array || (depth > 0 && c18NilableElem(rt.Elem())) {
			return c18Any, "" // recorded finding: null can not say at which level the nil was
		}
		return c18MustOk, ""
	}
	acc := &c18Acc{v: c18MustOk}
	switch {
	case ty == cty.Bool:
		if base.Kind() != reflect.Bool {
			return c18MustErr, "shape mismatch decoded without error: bool"
		}
	case ty == cty.String:
		if base.Kind() != reflect.String {
			return c18MustErr, "shape mismatch decoded without error: string"
		}
	case ty == cty.Number:
		switch base.Kind() {
		case reflect.Int, reflect.Int8, reflect.Int16, reflect.Int32, reflect.Int64,
			reflect.Uint, reflect.Uint8, reflect.Uint16, reflect.Uint32, reflect.Uint64, reflect.Float32, reflect.Float64:
		default:
			if base != c18BigIntT && base != c18BigFloatT {
				return c18MustErr, "shape mismatch decoded without error: number"
			}
		}
		return c18NumVerdict(v.AsBigFloat(), base)
	case ty.IsListType() || ty.IsSetType():
		if base.Kind() != reflect.Slice && base.Kind() != reflect.Array {
			return c18MustErr, "shape mismatch decoded without error: list or set"
		}
		if base.Kind() == reflect.Array && v.LengthInt() != base.Len() {
			return c18MustErr, "list or set of another length decoded into an array without error"
		}
		for it := v.ElementIterator(); it.Next(); {
			_, ev := it.Element()
			acc.add(c18Verdict(ev, base.Elem()))
		}
	case ty.IsMapType():
		if base.Kind() != reflect.Map {
			return c18MustErr, "shape mismatch decoded without error: map"
		}
		if base.Key().Kind() != reflect.String {
			return c18MustErr, "map decoded into a Go map whose key type is not string"
		}
		for it := v.ElementIterator(); it.Next(); {
			_, ev := it.Element()
			acc.add(c18Verdict(ev, base.Elem()))
		}
	case ty.IsObjectType():
		if base.Kind() != reflect.Struct {
			return c18MustErr, "shape mismatch decoded without error: object"
		}
		idx := c18TagIndex(base)
		atys := ty.AttributeTypes()
		if len(idx) == 0 && len(atys) == 0 {
			return c18Any, "" // the empty object into a struct without tagged fields (big.Int, struct{}): nothing to lose
		}
		names := make([]string, 0, len(atys))
		for k := range atys {
			names = append(names, k)
		}
		sort.Strings(names)
		for _, k := range names {
			fi, ok := idx[k]
			switch {
			case !ok:
				acc.add(c18MustErr, "object with an attribute that has no cty-tagged field decoded without error (the attribute is silently dropped)")
			case base.Field(fi).PkgPath != "":
				acc.add(c18MustErr, "object attribute decoded into an unexported field without error")
			default:
				acc.add(c18Verdict(v.GetAttr(k), base.Field(fi).Type))
			}
		}
		for k, fi := range idx {
			if _, ok := atys[k]; !ok && !c18NilableField(base.Field(fi).Type) {
				acc.add(c18MustErr, "object without the attribute of a field that can not be nil decoded without error")
			}
		}
	case ty.IsTupleType():
		if base.Kind() != reflect.Struct {
			return c18MustErr, "shape mismatch decoded without error: tuple"
		}
		ets := ty.TupleElementTypes()
		if len(ets) != base.NumField() {
			return c18MustErr, "tuple of another length than the struct has fields decoded without error"
		}
		if len(ets) == 0 {
			return c18Any, ""
		}
		for i := range ets {
			if base.Field(i).PkgPath != "" {
				acc.add(c18MustErr, "tuple element decoded into an unexported field without error")
				continue
			}
			acc.add(c18Verdict(v.Index(cty.NumberIntVal(int64(i))), base.Field(i).Type))
		}
	default:
		return c18Any, "" // capsules
	}
	return acc.v, acc.why
}

// c18JudgeDeep compares the answer of the real FromCtyValue with the verdict.
func c18JudgeDeep(ctx *Ctx, v cty.Value, rt reflect.Type, impl string) {
	if v.ContainsMarked() || impl == "panic" {
		return
	}
	verd, why := c18Verdict(v, rt)
	ctx.Tag("verdict:" + verd.String() + ":" + impl[:2])
	vw, tw := encVal(v), c18TyName(rt)
	lit := fmt.Sprintf("var t %s; err := gocty.FromCtyValue(%#v, &t)", rt, v)
	ok := strings.HasPrefix(impl, "ok")
	switch {
	case verd == c18MustErr && ok:
		ctx.Fail(Failure{Site: "errors_otherwise", Sig: why, What: "a value that does not fit the target must be refused with an error, never silently accepted", Input: vw + " " + tw, GoLit: lit, Outcome: impl})
	case verd == c18MustOk && !ok:
		ctx.Fail(Failure{Site: "fits_is_accepted", Sig: "a value that fits the target at every depth is refused", What: "a known value of the target's shape whose numbers are representable must be decoded", Input: vw + " " + tw, GoLit: lit, Outcome: impl})
	}
}

// ---- near-miss attribute sets ---------------------------------------------------

// c18ObjectSite: the struct types (with at least one tag) reachable from rt, with the path kinds
func c18StructSites(rt reflect.Type, seen map[reflect.Type]bool, out *[]reflect.Type) {
	if rt == c18BigIntT || rt == c18BigFloatT || rt == c18ValueT || seen[rt] {
		return
	}
	seen[rt] = true
	switch rt.Kind() {
	case reflect.Ptr, reflect.Slice, reflect.Array, reflect.Map:
		c18StructSites(rt.Elem(), seen, out)
	case reflect.Struct:
		if len(c18TagIndex(rt)) > 0 {
			*out = append(*out, rt)
		}
		for i := 0; i < rt.NumField(); i++ {
			if rt.Field(i).Tag.Get("cty") != "" {
				c18StructSites(rt.Field(i).Type, seen, out)
			}
		}
	}
}

// one near miss: attributes to drop, attributes to add (name -> type), and whether the added ones hold null
type c18Miss struct {
	name     string
	drop     []string
	add      map[string]cty.Type
	nullAdds bool
	nfdNames bool // spell every non-ASCII attribute name in NFD when building the value (cty normalises it back)
}

func c18Typo(s string) string {
	rs := []rune(s)
	if len(rs) >= 2 {
		rs[len(rs)-1], rs[len(rs)-2] = rs[len(rs)-2], rs[len(rs)-1]
		if string(rs) != s {
			return string(rs)
		}
	}
	return s + "x"
}

func c18CaseVariant(s string) string {
	rs := []rune(s)
	for i, r := range rs {
		if unicode.IsLower(r) {
			rs[i] = unicode.ToUpper(r)
			return string(rs)
		}
		if unicode.IsUpper(r) {
			rs[i] = unicode.ToLower(r)
			return string(rs)
		}
	}
	return s + "_"
}

// c18Misses enumerates the near misses of one struct type
func c18Misses(st reflect.Type) []c18Miss {
	idx := c18TagIndex(st)
	var nilable, required []string
	for k, fi := range idx {
		if c18NilableField(st.Field(fi).Type) {
			nilable = append(nilable, k)
		} else {
			required = append(required, k)
		}
	}
	sort.Strings(nilable)
	sort.Strings(required)
	all := append(append([]string{}, nilable...), required...)
	sort.Strings(all)
	fresh := func(cands ...string) string {
		for _, c := range cands {
			c = cty.NormalizeString(c)
			if _, taken := idx[c]; !taken {
				return c
			}
		}
		return "zz_stray"
	}
	strayTy := []cty.Type{cty.String, cty.Number, cty.Bool, cty.List(cty.String), cty.EmptyObject}
	var out []c18Miss
	n := 0
	sty := func() cty.Type { n++; return strayTy[n%len(strayTy)] }
	out = append(out, c18Miss{name: "exact"})
	out = append(out, c18Miss{name: "exact-nfd-names", nfdNames: true})
	out = append(out, c18Miss{name: "stray", add: map[string]cty.Type{fresh("zz_stray"): sty()}})
	out = append(out, c18Miss{name: "stray-empty-name", add: map[string]cty.Type{"": sty()}})
	out = append(out, c18Miss{name: "stray-null", add: map[string]cty.Type{fresh("zz_stray"): sty()}, nullAdds: true})
	out = append(out, c18Miss{name: "two-strays", add: map[string]cty.Type{fresh("zz_stray"): sty(), fresh("aa_stray"): sty()}})
	for _, k := range all {
		out = append(out, c18Miss{name: "stray-typo", add: map[string]cty.Type{fresh(c18Typo(k), k+"x"): sty()}})
		out = append(out, c18Miss{name: "stray-case", add: map[string]cty.Type{fresh(c18CaseVariant(k), k+"_"): sty()}})
		out = append(out, c18Miss{name: "renamed-case", drop: []string{k}, add: map[string]cty.Type{fresh(c18CaseVariant(k), k+"_"): sty()}})
		out = append(out, c18Miss{name: "renamed-typo", drop: []string{k}, add: map[string]cty.Type{fresh(c18Typo(k), k+"x"): sty()}})
	}
	for _, k := range nilable {
		out = append(out, c18Miss{name: "missing-nilable", drop: []string{k}})
		out = append(out, c18Miss{name: "missing-nilable+stray", drop: []string{k}, add: map[string]cty.Type{fresh("zz_stray"): sty()}})
		out = append(out, c18Miss{name: "missing-nilable+stray-null", drop: []string{k}, add: map[string]cty.Type{fresh("zz_stray"): sty()}, nullAdds: true})
		out = append(out, c18Miss{name: "missing-nilable+two-strays", drop: []string{k}, add: map[string]cty.Type{fresh("zz_stray"): sty(), fresh(c18Typo(k), "aa_stray"): sty()}})
	}
	for _, k := range required {
		out = append(out, c18Miss{name: "missing-required", drop: []string{k}})
		out = append(out, c18Miss{name: "missing-required+stray", drop: []string{k}, add: map[string]cty.Type{fresh("zz_stray"): sty()}})
	}
	if len(nilable) >= 2 {
		// every nilable attribute missing, with fewer / as many / more strays
		for j := 0; j <= len(nilable)+1; j++ {
			add := map[string]cty.Type{}
			for i := 0; i < j; i++ {
				add[fresh(fmt.Sprintf("stray%d", i))] = sty()
			}
			out = append(out, c18Miss{name: fmt.Sprintf("missing-all-nilable+%d-strays", j), drop: nilable, add: add})
		}
		out = append(out, c18Miss{name: "missing-two-nilable+one-stray", drop: nilable[:2], add: map[string]cty.Type{fresh("zz_stray"): sty()}})
	}
	if len(all) > 0 {
		out = append(out, c18Miss{name: "all-missing", drop: all})
		out = append(out, c18Miss{name: "all-renamed", drop: all, add: func() map[string]cty.Type {
			m := map[string]cty.Type{}
			for _, k := range all {
				m[fresh(c18Typo(k), k+"x")] = sty()
			}
			return m
		}()})
	}
	return out
}

// c18MissType rewrites the bridge type of rt: at every object site whose struct is `site`, the miss is applied
func c18MissType(rt reflect.Type, site reflect.Type, ms c18Miss) (cty.Type, bool) {
	switch rt {
	case c18BigIntT, c18BigFloatT:
		return cty.Number, false
	case c18ValueT:
		return cty.DynamicPseudoType, false
	}
	switch rt.Kind() {
	case reflect.Interface:
		return cty.DynamicPseudoType, false
	case reflect.Ptr:
		return c18MissType(rt.Elem(), site, ms)
	case reflect.Slice, reflect.Array:
		e, hit := c18MissType(rt.Elem(), site, ms)
		return cty.List(e), hit
	case reflect.Map:
		e, hit := c18MissType(rt.Elem(), site, ms)
		return cty.Map(e), hit
	case reflect.Struct:
		atys := map[string]cty.Type{}
		hit := false
		for k, fi := range c18TagIndex(rt) {
			e, h := c18MissType(rt.Field(fi).Type, site, ms)
			atys[cty.NormalizeString(k)] = e
			hit = hit || h
		}
		if rt == site {
			hit = true
			for _, k := range ms.drop {
				delete(atys, cty.NormalizeString(k))
			}
			for k, t := range ms.add {
				atys[k] = t
			}
		}
		return cty.Object(atys), hit
	}
	t, _, err := c18Bridge(rt)
	if err != nil {
		panic(err)
	}
	return t, false
}

// c18Respell rebuilds the value with the added attributes null (nullAdds) and/or every attribute name spelled in NFD
func c18Respell(v cty.Value, ms c18Miss) cty.Value {
	if !v.IsKnown() || v.IsNull() || v.IsMarked() {
		return v
	}
	ty := v.Type()
	switch {
	case ty.IsObjectType():
		m := map[string]cty.Value{}
		for k := range ty.AttributeTypes() {
			ev := c18Respell(v.GetAttr(k), ms)
			if _, added := ms.add[k]; added && ms.nullAdds {
				ev = cty.NullVal(ev.Type())
			}
			if ms.nfdNames {
				k = norm.NFD.String(k)
			}
			m[k] = ev
		}
		return cty.ObjectVal(m)
	case ty.IsListType() && v.LengthInt() > 0:
		var es []cty.Value
		for it := v.ElementIterator(); it.Next(); {
			_, ev := it.Element()
			es = append(es, c18Respell(ev, ms))
		}
		if cty.CanListVal(es) {
			return cty.ListVal(es)
		}
	case ty.IsMapType() && v.LengthInt() > 0:
		m := map[string]cty.Value{}
		for it := v.ElementIterator(); it.Next(); {
			kv, ev := it.Element()
			m[kv.AsString()] = c18Respell(ev, ms)
		}
		if cty.CanMapVal(m) {
			return cty.MapVal(m)
		}
	}
	return v
}

// judge-only struct targets (outside the Lean model: an interface-typed or unexported tagged field)
type c18IfaceSrv struct {
	A interface{} `cty:"a"`
	B int         `cty:"b"`
	C *int        `cty:"c"`
}

// c18StraySample: the value a stray attribute of type t holds
func c18StraySample(t cty.Type) cty.Value {
	switch {
	case t == cty.String:
		return cty.StringVal("stray")
	case t == cty.Number:
		return cty.NumberIntVal(8080)
	case t == cty.Bool:
		return cty.True
	case t.IsListType():
		return cty.ListVal([]cty.Value{cty.StringVal("x")})
	}
	return cty.EmptyObjectVal
}

// c18MutTy applies the miss to a value type, walking it alongside the Go type: at every object that is decoded into `site`
func c18MutTy(ty cty.Type, rt reflect.Type, site reflect.Type, ms c18Miss) cty.Type {
	_, base := c18Depth(rt)
	if base == c18ValueT || base == c18BigIntT || base == c18BigFloatT {
		return ty
	}
	switch {
	case ty.IsListType() && (base.Kind() == reflect.Slice || base.Kind() == reflect.Array):
		return cty.List(c18MutTy(ty.ElementType(), base.Elem(), site, ms))
	case ty.IsMapType() && base.Kind() == reflect.Map:
		return cty.Map(c18MutTy(ty.ElementType(), base.Elem(), site, ms))
	case ty.IsObjectType() && base.Kind() == reflect.Struct:
		idx := c18TagIndex(base)
		atys := map[string]cty.Type{}
		for k, t := range ty.AttributeTypes() {
			if fi, ok := idx[k]; ok {
				t = c18MutTy(t, base.Field(fi).Type, site, ms)
			}
			atys[k] = t
		}
		if base == site {
			for _, k := range ms.drop {
				delete(atys, cty.NormalizeString(k))
			}
			for k, t := range ms.add {
				atys[k] = t
			}
		}
		return cty.Object(atys)
	}
	return ty
}

// c18MutVal applies the miss to a value that fits rt: every object decoded into `site` loses / gains the attributes
func c18MutVal(v cty.Value, rt reflect.Type, site reflect.Type, ms c18Miss) cty.Value {
	_, base := c18Depth(rt)
	if base == c18ValueT || base == c18BigIntT || base == c18BigFloatT || v.IsMarked() {
		return v
	}
	ty := v.Type()
	if v.IsNull() {
		return cty.NullVal(c18MutTy(ty, rt, site, ms))
	}
	if !v.IsKnown() {
		return cty.UnknownVal(c18MutTy(ty, rt, site, ms))
	}
	switch {
	case ty.IsListType() && (base.Kind() == reflect.Slice || base.Kind() == reflect.Array):
		if v.LengthInt() == 0 {
			return cty.ListValEmpty(c18MutTy(ty.ElementType(), base.Elem(), site, ms))
		}
		var es []cty.Value
		for it := v.ElementIterator(); it.Next(); {
			_, ev := it.Element()
			es = append(es, c18MutVal(ev, base.Elem(), site, ms))
		}
		if !cty.CanListVal(es) {
			return v
		}
		return cty.ListVal(es)
	case ty.IsMapType() && base.Kind() == reflect.Map:
		if v.LengthInt() == 0 {
			return cty.MapValEmpty(c18MutTy(ty.ElementType(), base.Elem(), site, ms))
		}
		m := map[string]cty.Value{}
		for it := v.ElementIterator(); it.Next(); {
			kv, ev := it.Element()
			m[kv.AsString()] = c18MutVal(ev, base.Elem(), site, ms)
		}
		if !cty.CanMapVal(m) {
			return v
		}
		return cty.MapVal(m)
	case ty.IsObjectType() && base.Kind() == reflect.Struct:
		idx := c18TagIndex(base)
		m := map[string]cty.Value{}
		for k := range ty.AttributeTypes() {
			ev := v.GetAttr(k)
			if fi, ok := idx[k]; ok {
				ev = c18MutVal(ev, base.Field(fi).Type, site, ms)
			}
			m[k] = ev
		}
		if base == site {
			for _, k := range ms.drop {
				delete(m, cty.NormalizeString(k))
			}
			for k, t := range ms.add {
				if ms.nullAdds {
					m[k] = cty.NullVal(t)
				} else {
					m[k] = c18StraySample(t)
				}
			}
		}
		if ms.nfdNames {
			m2 := map[string]cty.Value{}
			for k, ev := range m {
				m2[norm.NFD.String(k)] = ev
			}
			m = m2
		}
		return cty.ObjectVal(m)
	}
	return v
}

func runC18NearMiss(ctx *Ctx) {
	per := ctx.N(4, 32)
	emit := func(v cty.Value, rt reflect.Type, modelled bool, tag string) {
		var impl, why string
		if modelled {
			impl, _, _, _, why = c18From(v, rt)
		} else {
			var err error
			target := reflect.New(rt)
			var pn bool
			pn, why = try(func() { err = gocty.FromCtyValue(v, target.Interface()) })
			switch {
			case pn:
				impl = "panic"
			case err != nil:
				impl = "err"
			default:
				impl = fmt.Sprintf("ok %v", target.Elem().Interface())
			}
		}
		vw, tw := encVal(v), "irregular "+rt.String()
		if modelled {
			tw = encGoTy(rt)
			c18AddFrom(ctx, impl, vw, tw)
		}
		ctx.Eval("nearmiss "+vw+" "+tw, true)
		verd := c18Any
		if !v.ContainsMarked() {
			verd, _ = c18Verdict(v, rt)
		}
		ctx.Tag("nearmiss:" + tag + ":" + verd.String() + ":" + impl[:2])
		c18Judge(ctx, v, rt, impl, why)
	}
	type target struct {
		rt       reflect.Type
		modelled bool
	}
	var targets []target
	for _, f := range c18Family {
		targets = append(targets, target{f.rt, true})
	}
	for _, rt := range []reflect.Type{c18T(new(c18IfaceSrv)), c18T(new(*c18IfaceSrv)), c18T(new(c18TaggedIface)), c18T(new(c18Unexp)), c18T(new([]c18IfaceSrv))} {
		targets = append(targets, target{rt, false})
	}
	// a value that fits the target: a generated Go value of the type, converted by the real ToCtyValue
	fitting := func(rt reflect.Type, j int) (cty.Value, bool) {
		g := &c18Gen{r: ctx.R, mode: c18Clean}
		switch j % 4 {
		case 1:
			g.distinct = true
		case 2:
			g.mode = c18NilAny
		}
		var v cty.Value
		var err error
		pn, _ := try(func() {
			gv := g.gen(rt, 3)
			mt, _ := c18MissType(rt, nil, c18Miss{})
			v, err = gocty.ToCtyValue(gv.Interface(), mt)
		})
		if pn || err != nil || g.hitMixed {
			return cty.NilVal, false
		}
		return v, true
	}
	for _, tg := range targets {
		var sites []reflect.Type
		c18StructSites(tg.rt, map[reflect.Type]bool{}, &sites)
		for si, site := range sites {
			for _, ms := range c18Misses(site) {
				mt, hit := c18MissType(tg.rt, site, ms)
				if !hit {
					continue
				}
				k := per
				if si > 0 {
					k = (per + 1) / 2
				}
				for j := 0; j < k; j++ {
					var v cty.Value
					fit := false
					if j%4 != 3 {
						var base cty.Value
						if base, fit = fitting(tg.rt, j); fit {
							v = c18MutVal(base, tg.rt, site, ms)
						}
					}
					if !fit {
						// a random value of the near-miss type (numbers, nulls as they come)
						o := ValOpts{}
						if j%2 == 1 {
							o.Null = true
						}
						v = c18Respell(genVal(ctx.R, concretize(ctx.R, mt), 3, o), ms)
					}
					if !tg.modelled && !v.Type().IsObjectType() && !v.Type().IsListType() {
						continue
					}
					tag := ms.name
					if fit {
						tag = "fit:" + tag
					}
					emit(v, tg.rt, tg.modelled, tag)
				}
			}
		}
	}
}

// c18TyName: the wire form of a modelled Go type, the Go name of any other
func c18TyName(rt reflect.Type) (s string) {
	defer func() {
		if recover() != nil {
			s = "irregular " + rt.String()
		}
	}()
	return encGoTy(rt)
}
