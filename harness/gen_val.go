package main

import (
	"math"
	"math/big"
	"math/rand"

	"github.com/zclconf/go-cty/cty"
)

type ValOpts struct {
	Unknown bool // unknown values (refined and not) at any depth
	Null    bool
	Marks   bool
	DynVal  bool // cty.DynamicVal as a nested member
	NoInf   bool
	Small   bool // tiny primitive domains, so that equal members and collisions are frequent
	Width   int
}

var markNames = []string{"m1", "m2", "m3"}

// the C05 alphabet plus plain ASCII
var strAtoms = []string{"", "a", "b", "ab", "-", " ", "/", "a-", "é", "é", "́", "가", "ᄀ", "ᅡ", "ᆨ",
	"👍", "\U0001F3FD", "‍", "👩‍👩", "\U0001F1E6", "\U0001F1FA", "\r", "\n", "\r\n", "Å", "Å", "ﬁ", "z"}

func genString(r *rand.Rand) string {
	n := r.Intn(4)
	s := ""
	for i := 0; i < n; i++ {
		s += strAtoms[r.Intn(len(strAtoms))]
	}
	return s
}

var decimalPool = []string{"0.1", "0.5", "1.5", "-2.25", "3.9477794105", "0.30000000000000004", "123456789.123456789",
	"1e3", "1e-3", "-1e20", "1.0000000001", "1.00000000001", "9.9999999995", "9.99999999949", "0.000001234567891",
	"179769313486231570000000000000000000000", "340282366920938463463374607431768211456", "0.1e1", "12345678901234567890123456789012345678901234567890"}

func genNumber(r *rand.Rand, o ValOpts) cty.Value {
	if o.Small && r.Intn(4) != 0 {
		switch r.Intn(6) {
		case 0:
			return cty.NumberFloatVal(0.5)
		case 1:
			return cty.MustParseNumberVal("0.5")
		default:
			return cty.NumberIntVal(int64(r.Intn(3)))
		}
	}
	switch r.Intn(12) {
	case 0, 1, 2:
		return cty.NumberIntVal(int64(r.Intn(11) - 3))
	case 3:
		b := []int64{math.MaxInt64, math.MinInt64, math.MaxInt32, math.MinInt32, 1 << 53, -(1 << 53), 255, 256, 65535, 65536, 127, 128, -128, -129}
		v := b[r.Intn(len(b))]
		if d := int64(r.Intn(3) - 1); (d > 0 && v < math.MaxInt64) || (d < 0 && v > math.MinInt64) {
			v += d
		}
		return cty.NumberIntVal(v)
	case 4:
		b := []uint64{math.MaxUint64, math.MaxUint64 - 1, 1 << 63, 1<<63 + 1, math.MaxUint32, math.MaxUint32 + 1}
		return cty.NumberUIntVal(b[r.Intn(len(b))])
	case 5:
		// 2^k ± 1 up to 2^600 at 512 bits
		k := uint(r.Intn(600))
		z := new(big.Int).Lsh(big.NewInt(1), k)
		z.Add(z, big.NewInt(int64(r.Intn(3)-1)))
		if r.Intn(2) == 0 {
			z.Neg(z)
		}
		f := new(big.Float).SetPrec(512).SetInt(z)
		return cty.NumberVal(f)
	case 6:
		fs := []float64{0.1, 0.5, 1.5, -2.25, 3.9477794105, 1e100, 1e-100, math.MaxFloat64, math.SmallestNonzeroFloat64, 0.30000000000000004, 123456.789, 1.0 / 3.0}
		return cty.NumberFloatVal(fs[r.Intn(len(fs))])
	case 7:
		f := math.Float64frombits(r.Uint64())
		if math.IsNaN(f) || math.IsInf(f, 0) {
			f = 2.5
		}
		return cty.NumberFloatVal(f)
	case 8, 9:
		return cty.MustParseNumberVal(decimalPool[r.Intn(len(decimalPool))])
	case 10:
		if r.Intn(3) == 0 {
			// few mantissa bits, magnitude outside (or at the edge of) float64's exponent
			// range: m * 2^e with e around -1100 (below the smallest subnormal), around
			// -1074..-1022 (subnormal: fewer than 53 bits available) or around +1023
			m := int64(2*r.Intn(1<<20) + 1)
			if r.Intn(2) == 0 {
				m = int64(2*r.Int63n(1<<52) + 1)
			}
			e := []int{-1160, -1100, -1080, -1074, -1060, -1030, -1022, 960, 1000, 1023}[r.Intn(10)] + r.Intn(8)
			f := new(big.Float).SetPrec(512).SetMantExp(new(big.Float).SetPrec(512).SetInt64(m), e)
			if r.Intn(2) == 0 {
				f.Neg(f)
			}
			return cty.NumberVal(f)
		}
		// low precision big.Float
		f := new(big.Float).SetPrec(uint(1 + r.Intn(30))).SetFloat64(float64(r.Intn(2000)-1000) / 8)
		return cty.NumberVal(f)
	default:
		if o.NoInf {
			return cty.NumberIntVal(0)
		}
		switch r.Intn(4) {
		case 0:
			return cty.PositiveInfinity
		case 1:
			return cty.NegativeInfinity
		case 2:
			return cty.NumberVal(new(big.Float).Neg(new(big.Float).SetInt64(0))) // -0
		default:
			return cty.NumberIntVal(0)
		}
	}
}

// concretize replaces every placeholder in t by a concrete type.
func concretize(r *rand.Rand, t cty.Type) cty.Type {
	switch {
	case t == cty.DynamicPseudoType:
		return genTy(r, 1, TyOpts{})
	case t.IsListType():
		return cty.List(concretize(r, t.ElementType()))
	case t.IsSetType():
		return cty.Set(concretize(r, t.ElementType()))
	case t.IsMapType():
		return cty.Map(concretize(r, t.ElementType()))
	case t.IsTupleType():
		es := t.TupleElementTypes()
		n := make([]cty.Type, len(es))
		for i := range es {
			n[i] = concretize(r, es[i])
		}
		return cty.Tuple(n)
	case t.IsObjectType():
		atys := map[string]cty.Type{}
		src := t.AttributeTypes()
		for _, k := range sortedKeys(src) { // sorted: every random draw must be a function of the seed
			atys[k] = concretize(r, src[k])
		}
		return cty.Object(atys)
	}
	return t
}

var capsulePayloads = []*int{new(int), new(int)}

// genUnknown builds an unknown value of type t with a random valid refinement.
func genUnknown(r *rand.Rand, t cty.Type) cty.Value {
	u := cty.UnknownVal(t)
	if t == cty.DynamicPseudoType || r.Intn(3) == 0 {
		return u
	}
	b := u.Refine()
	if r.Intn(2) == 0 {
		b = b.NotNull()
	}
	switch {
	case t == cty.Number:
		lo := int64(r.Intn(7) - 3)
		hi := lo + int64(r.Intn(4)) + 1
		if r.Intn(2) == 0 {
			b = b.NumberRangeLowerBound(cty.NumberIntVal(lo), r.Intn(2) == 0)
		}
		if r.Intn(2) == 0 {
			b = b.NumberRangeUpperBound(cty.NumberIntVal(hi), r.Intn(2) == 0)
		}
	case t == cty.String:
		if r.Intn(2) == 0 {
			b = b.StringPrefixFull([]string{"a", "ab", "a-", "x/"}[r.Intn(4)])
		}
	case t.IsListType() || t.IsSetType() || t.IsMapType():
		lo := r.Intn(3)
		if r.Intn(2) == 0 {
			b = b.CollectionLengthLowerBound(lo)
		}
		if r.Intn(2) == 0 {
			b = b.CollectionLengthUpperBound(lo + r.Intn(3))
		}
	}
	return b.NewValue()
}

// genVal generates a value conforming to t (placeholders are instantiated).
func genVal(r *rand.Rand, t cty.Type, depth int, o ValOpts) cty.Value {
	if t == cty.DynamicPseudoType {
		if o.DynVal && o.Unknown && r.Intn(4) == 0 {
			return cty.DynamicVal
		}
		t = genTy(r, minInt(depth, 1), TyOpts{})
	}
	v := genValUnmarked(r, t, depth, o)
	if o.Marks && r.Intn(8) == 0 {
		v = v.Mark(markNames[r.Intn(len(markNames))])
		if r.Intn(3) == 0 {
			v = v.Mark(markNames[r.Intn(len(markNames))])
		}
	}
	return v
}

func minInt(a, b int) int {
	if a < b {
		return a
	}
	return b
}

func genValUnmarked(r *rand.Rand, t cty.Type, depth int, o ValOpts) cty.Value {
	if o.Null && r.Intn(10) == 0 {
		return cty.NullVal(t)
	}
	if o.Unknown && r.Intn(8) == 0 {
		return genUnknown(r, t)
	}
	w := o.Width
	if w == 0 {
		w = 3
	}
	switch {
	case t == cty.Bool:
		return cty.BoolVal(r.Intn(2) == 0)
	case t == cty.Number:
		return genNumber(r, o)
	case t == cty.String:
		if o.Small && r.Intn(4) != 0 {
			return cty.StringVal([]string{"a", "b", ""}[r.Intn(3)])
		}
		return cty.StringVal(genString(r))
	case t.IsCapsuleType():
		return cty.CapsuleVal(t, capsulePayloads[r.Intn(len(capsulePayloads))])
	case t.IsListType():
		ety := concretize(r, t.ElementType())
		n := r.Intn(w + 1)
		if n == 0 || depth <= 0 {
			return cty.ListValEmpty(ety)
		}
		vs := make([]cty.Value, n)
		for i := range vs {
			vs[i] = genVal(r, ety, depth-1, o)
		}
		return cty.ListVal(vs)
	case t.IsSetType():
		ety := concretize(r, t.ElementType())
		n := r.Intn(w + 1)
		if n == 0 || depth <= 0 {
			return cty.SetValEmpty(ety)
		}
		vs := make([]cty.Value, n)
		for i := range vs {
			vs[i] = genVal(r, ety, depth-1, o)
		}
		return cty.SetVal(vs)
	case t.IsMapType():
		ety := concretize(r, t.ElementType())
		n := r.Intn(w + 1)
		if n == 0 || depth <= 0 {
			return cty.MapValEmpty(ety)
		}
		vs := map[string]cty.Value{}
		for i := 0; i < n; i++ {
			vs[[]string{"a", "b", "k", "é", "zz", ""}[r.Intn(6)]] = genVal(r, ety, depth-1, o)
		}
		return cty.MapVal(vs)
	case t.IsTupleType():
		es := t.TupleElementTypes()
		vs := make([]cty.Value, len(es))
		for i := range es {
			vs[i] = genVal(r, es[i], depth-1, o)
		}
		return cty.TupleVal(vs)
	case t.IsObjectType():
		vs := map[string]cty.Value{}
		atys := t.AttributeTypes()
		for _, k := range sortedKeys(atys) { // sorted: every random draw must be a function of the seed
			vs[k] = genVal(r, atys[k], depth-1, o)
		}
		return cty.ObjectVal(vs)
	}
	panic("genVal: unsupported type " + t.GoString())
}

// encVal prints a value in wire form: type by public accessors, payload by the
// verif hook.
func encVal(v cty.Value) string {
	if v == cty.NilVal {
		return "NILVAL"
	}
	return "(v " + encTy(v.Type()) + " " + cty.VerifDump(v) + ")"
}
