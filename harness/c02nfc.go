package main

// C02, "attribute / index operations return exactly the members the value was constructed from" for names and
// keys that are NOT in NFC form when they are given to the constructor or to the accessor (cty normalises both
// sides: docs/types.md).  Added after the seeded change C02-getattr-skips-name-normalization was missed: every
// other C02 case spelled attribute names in NFC already.

import (
	"fmt"

	"github.com/zclconf/go-cty/cty"
	"golang.org/x/text/unicode/norm"
)

// pairs of canonically equivalent spellings, none of the first ones in NFC
var c02Spellings = [][2]string{
	{"gre\u0301eting", "gr\u00e9eting"},
	{"\u1112\u1161\u11ab", "\ud55c"},
	{"\u212a", "K"},
	{"n\u0303o\u0308", "\u00f1\u00f6"},
	{"\u212b", "\u00c5"},
	{"a\u0323\u0302", "\u1ead"},
}

func c02NonNFC(ctx *Ctx) {
	members := []cty.Value{cty.NumberIntVal(42), cty.StringVal("x"), cty.True, cty.ListVal([]cty.Value{cty.NumberIntVal(1)})}
	for si, sp := range c02Spellings {
		raw, nfc := sp[0], sp[1]
		if norm.NFC.String(raw) != nfc || raw == nfc {
			ctx.Fail(Failure{Site: "getattr", Sig: "harness:spelling-table", What: "the spelling table of the harness is wrong", Input: fmt.Sprintf("%q %q", raw, nfc), GoLit: "", Outcome: norm.NFC.String(raw)})
			continue
		}
		want := members[si%len(members)]
		other := members[(si+1)%len(members)]
		for _, built := range []string{raw, nfc} {
			ov := cty.ObjectVal(map[string]cty.Value{built: want, "plain": other})
			mv := cty.MapVal(map[string]cty.Value{built: want, "plain": want})
			for _, asked := range []string{raw, nfc} {
				input := fmt.Sprintf("object built with %+q, asked %+q", built, asked)
				ctx.Eval("nfcattr "+input, true)
				var got cty.Value
				var hasA bool
				var aty cty.Type
				if p, _ := try(func() { hasA = ov.Type().HasAttribute(asked); aty = ov.Type().AttributeType(asked); got = ov.GetAttr(asked) }); p {
					ctx.Fail(Failure{Site: "getattr", Sig: "getattr:non-nfc-name:panic", What: "GetAttr / AttributeType panicked for a declared attribute spelled in a canonically equivalent form", Input: input, GoLit: fmt.Sprintf("cty.ObjectVal(map[string]cty.Value{%+q: %#v}).GetAttr(%+q)", built, want, asked), Outcome: "panic"})
				} else {
					if !hasA || !aty.Equals(want.Type()) {
						ctx.Fail(Failure{Site: "getattr", Sig: "getattr:non-nfc-name:type", What: "HasAttribute / AttributeType does not find a declared attribute spelled in a canonically equivalent form", Input: input, GoLit: fmt.Sprintf("cty.ObjectVal(map[string]cty.Value{%+q: %#v}).Type().AttributeType(%+q)", built, want, asked), Outcome: fmt.Sprint(hasA, " ", aty.GoString())})
					}
					if !got.RawEquals(want) {
						ctx.Fail(Failure{Site: "getattr", Sig: "getattr:non-nfc-name:member", What: "GetAttr does not return the member the object was constructed from when the name is spelled in a canonically equivalent (non-NFC) form", Input: input, GoLit: fmt.Sprintf("cty.ObjectVal(map[string]cty.Value{%+q: %#v}).GetAttr(%+q)", built, want, asked), Outcome: got.GoString()})
					}
				}
				// maps: keys are values (StringVal normalises), so both spellings name the same key
				kv := cty.StringVal(asked)
				minput := fmt.Sprintf("map built with %+q, asked %+q", built, asked)
				ctx.Eval("nfckey "+minput, true)
				var has, mgot cty.Value
				if p, _ := try(func() { has = mv.HasIndex(kv); mgot = mv.Index(kv) }); p {
					ctx.Fail(Failure{Site: "index", Sig: "index:non-nfc-key:panic", What: "Index / HasIndex panicked for a present key spelled in a canonically equivalent form", Input: minput, GoLit: fmt.Sprintf("cty.MapVal(map[string]cty.Value{%+q: %#v}).Index(cty.StringVal(%+q))", built, want, asked), Outcome: "panic"})
				} else if !has.IsKnown() || !has.True() || !mgot.RawEquals(want) {
					ctx.Fail(Failure{Site: "index", Sig: "index:non-nfc-key:member", What: "Index / HasIndex does not find the member stored under a key spelled in a canonically equivalent (non-NFC) form", Input: minput, GoLit: fmt.Sprintf("cty.MapVal(map[string]cty.Value{%+q: %#v}).Index(cty.StringVal(%+q))", built, want, asked), Outcome: fmt.Sprint(has.GoString(), " ", mgot.GoString())})
				}
			}
			// the other attribute is undisturbed and the names are stored normalised
			if got := ov.GetAttr("plain"); !got.RawEquals(other) {
				ctx.Fail(Failure{Site: "getattr", Sig: "getattr:non-nfc-name:neighbour", What: "a neighbouring attribute changed", Input: built, GoLit: ov.GoString(), Outcome: got.GoString()})
			}
			if n := ov.LengthInt(); n != 2 {
				ctx.Fail(Failure{Site: "length", Sig: "length:object-non-nfc", What: "object with one non-NFC name has a wrong number of attributes", Input: built, GoLit: ov.GoString(), Outcome: fmt.Sprint(n)})
			}
		}
	}
}
