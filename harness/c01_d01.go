package main

import (
	"math/big"

	"github.com/zclconf/go-cty/cty"
)

// Targeted cases for the Add / Subtract / Multiply soundness theorems of C01
// (slice d01): number operands of every precision class cty produces (53-bit
// floats incl. non-dyadic ones, 64-bit integers, 512-bit parsed decimals whose sums
// and products are ROUNDED), weakened to unrefined, not-null, half-bounded and
// two-sided unknowns whose bounds have the precision of the value or another one,
// and to DynamicVal.  Each paired run is also sent to `judge.c01.scope`.

var d01Decimals = []string{"0.1", "0.2", "0.3", "-0.7", "1e-3", "123.456", "3.000000000000000000000000000001", "-2.5", "1.0000000000000001",
	"0", "1", "-1", "7", "340282366920938463463374607431768211456", "1e40", "-1e-40"}
var d01Floats = []float64{0.1, 0.5, 1, 1.0000000000000002, -0.3, 2.5, 1e-100, 1e300, 0, -1, 3, 0.7}

func d01Number(ctx *Ctx) cty.Value {
	switch ctx.R.Intn(7) {
	case 0, 1, 2:
		return cty.MustParseNumberVal(d01Decimals[ctx.R.Intn(len(d01Decimals))])
	case 3, 4:
		return cty.NumberFloatVal(d01Floats[ctx.R.Intn(len(d01Floats))])
	case 5:
		return cty.NumberIntVal(int64(ctx.R.Intn(21) - 10))
	default:
		return mixedPrecNumber(ctx)
	}
}

// d01Bound: a number on the given side of f (below if lower), at f's own
// precision or (other) at another one; ok=false: no such bound
func d01Bound(ctx *Ctx, f *big.Float, lower, other bool) (cty.Value, bool, bool) {
	prec := f.Prec()
	if other {
		prec = []uint{53, 64, 512}[ctx.R.Intn(3)]
	}
	var b *big.Float
	inc := ctx.R.Intn(2) == 0
	switch ctx.R.Intn(4) {
	case 0: // the value itself, inclusive (exactly representable at a larger precision only)
		b = new(big.Float).SetPrec(prec).Set(f)
		if b.Cmp(f) != 0 {
			return cty.NilVal, false, false
		}
		inc = true
	case 1: // a tiny step away
		d := new(big.Float).SetPrec(600).SetMantExp(big.NewFloat(1), f.MantExp(nil)-int(ctx.R.Intn(70))-1)
		if lower {
			d.Neg(d)
		}
		b = new(big.Float).SetPrec(prec).SetMode(big.ToNearestEven).Add(new(big.Float).SetPrec(600).Set(f), d)
	default:
		d := big.NewFloat([]float64{0.25, 1, 0.1, 1000, 3}[ctx.R.Intn(5)])
		if lower {
			d.Neg(d)
		}
		b = new(big.Float).SetPrec(prec).Add(f, d)
	}
	if lower && b.Cmp(f) > 0 || !lower && b.Cmp(f) < 0 {
		return cty.NilVal, false, false
	}
	if b.Cmp(f) == 0 {
		inc = true
	}
	return cty.NumberVal(b), inc, true
}

// d01Weaken: an unknown that is true of the number v, and its kind
func d01Weaken(ctx *Ctx, v cty.Value) (cty.Value, string) {
	f := v.AsBigFloat()
	other := ctx.R.Intn(3) == 0
	tag := "same-prec"
	if other {
		tag = "any-prec"
	}
	switch ctx.R.Intn(8) {
	case 0:
		return v, "known"
	case 1:
		return cty.UnknownVal(cty.Number), "unrefined"
	case 2:
		return cty.UnknownVal(cty.Number).RefineNotNull(), "notnull"
	case 3:
		return cty.DynamicVal, "dyn"
	case 4:
		if b, inc, ok := d01Bound(ctx, f, true, other); ok {
			return cty.UnknownVal(cty.Number).Refine().NumberRangeLowerBound(b, inc).NewValue(), "lower-only:" + tag
		}
	case 5:
		if b, inc, ok := d01Bound(ctx, f, false, other); ok {
			return cty.UnknownVal(cty.Number).Refine().NumberRangeUpperBound(b, inc).NewValue(), "upper-only:" + tag
		}
	default:
		lo, li, ok1 := d01Bound(ctx, f, true, other)
		hi, hi2, ok2 := d01Bound(ctx, f, false, other)
		if ok1 && ok2 {
			var u cty.Value
			if p, _ := try(func() {
				u = cty.UnknownVal(cty.Number).Refine().NotNull().NumberRangeLowerBound(lo, li).NumberRangeUpperBound(hi, hi2).NewValue()
			}); !p {
				return u, "two-sided:" + tag
			}
		}
	}
	return cty.UnknownVal(cty.Number), "unrefined"
}

// c01D01Corpus: the mirror image of the recorded mixed-precision witness (the bound
// is FINER than the value): recorded under the same signature.
func c01D01Corpus() []c01Case {
	lo := cty.MustParseNumberVal("1.0000000000000001")
	x := cty.NumberFloatVal(1.0000000000000002)
	one := cty.NumberFloatVal(1)
	u := cty.UnknownVal(cty.Number).Refine().NumberRangeLowerBound(lo, true).NewValue()
	tenth := cty.MustParseNumberVal("0.1")
	return []c01Case{
		{"add", []cty.Value{x, one}, []cty.Value{u, one}},
		// must pass: sums and products that are rounded, all at 512 bits; an unrefined unknown factor
		{"add", []cty.Value{tenth, cty.MustParseNumberVal("0.2")}, []cty.Value{cty.UnknownVal(cty.Number).Refine().NumberRangeLowerBound(tenth, true).NewValue(), cty.MustParseNumberVal("0.2")}},
		{"mul", []cty.Value{tenth, cty.MustParseNumberVal("0.3")}, []cty.Value{cty.UnknownVal(cty.Number).Refine().NumberRangeInclusive(tenth, cty.MustParseNumberVal("0.7")).NewValue(), cty.MustParseNumberVal("0.3")}},
		{"mul", []cty.Value{cty.NumberIntVal(3), cty.NumberIntVal(2)}, []cty.Value{cty.UnknownVal(cty.Number), cty.NumberIntVal(2)}},
		{"mul", []cty.Value{cty.NumberIntVal(3), cty.NumberIntVal(-2)}, []cty.Value{cty.UnknownVal(cty.Number).Refine().NumberRangeLowerBound(cty.NumberIntVal(1), true).NewValue(), cty.NumberIntVal(-2)}},
		{"neg", []cty.Value{cty.NumberIntVal(10)}, []cty.Value{cty.UnknownVal(cty.Number).Refine().NumberRangeLowerBound(cty.Zero, false).NumberRangeUpperBound(cty.NumberIntVal(10), true).NewValue()}},
	}
}

// c01D01Tuples generates n targeted paired runs per operation and hands them to do.
func c01D01Tuples(ctx *Ctx, n int, do func(op string, o, w []cty.Value)) {
	for _, op := range []string{"add", "sub", "mul"} {
		for i := 0; i < n; i++ {
			x, y := d01Number(ctx), d01Number(ctx)
			w1, k1 := d01Weaken(ctx, x)
			w2, k2 := d01Weaken(ctx, y)
			if ctx.R.Intn(2) == 0 {
				w2, k2 = y, "known"
			}
			ctx.Tag("d01:" + op + ":w1=" + k1)
			ctx.Tag("d01:" + op + ":w2=" + k2)
			if len(numPrecs(x, y, w1, w2)) > 1 {
				ctx.Tag("d01:" + op + ":mixed-precision")
			} else {
				ctx.Tag("d01:" + op + ":one-precision")
			}
			do(op, []cty.Value{x, y}, []cty.Value{w1, w2})
		}
	}
}

// c01HasElementScope: "in" when the paired run satisfies the hypotheses of
// C01.sound_hasElement_partial — the set kept or not known; the needle kept, or not
// known and of the needle's own type or the dynamic pseudo-type
func c01HasElementScope(os, ws []cty.Value, wo, ww []string) string {
	su, _ := ws[0].Unmark()
	setOK := wo[0] == ww[0] || !su.IsKnown()
	eu, _ := ws[1].Unmark()
	oe, _ := os[1].Unmark()
	needleOK := wo[1] == ww[1] || (!eu.IsKnown() && (eu.Type().Equals(oe.Type()) || eu.Type() == cty.DynamicPseudoType))
	if setOK && needleOK {
		return "in"
	}
	return "out"
}
