package main

// C03, d03 deepening: the hypotheses of the d03 theorems (Props/C03.lean, section
// "d03") are tied to the inputs that are actually run.
//
//   * c03.frontier: for every value judged here the Lean driver evaluates the
//     theorem hypotheses (Ty.plain, Ty.isPrim, Payload.intMember, Payload.quotable);
//     the harness computes the same four flags through the public API of the REAL
//     value; both must agree (so "inside the proved frontier" means the same thing
//     on both sides), and the distribution is printed with ctx.Tag.
//   * pools INSIDE the frontier (integers of one value at several precisions,
//     strings, bools, nulls; wrapped in tuples / lists / maps / objects): every
//     predicate of the value half, where a failure would contradict a theorem.
//   * c03.primiter: the iteration order of SetVal(...) of primitive members against
//     the SPECIFICATION primLessB (not the transliteration Lvl.less).
//   * sets of 21..40 members: Go's sort.SliceStable leaves its single
//     insertion-sort block; the model (insertion sort throughout) must still agree.
//   * sets with UNKNOWN members of different refinements: setRules.Less orders two
//     unknowns neither way, so they keep insertion order (reported under its own
//     root-cause signature).

import (
	"fmt"
	"math/big"
	"strings"

	"github.com/zclconf/go-cty/cty"
)

const c03SigUnkTied = "less-tied-unknown-members-of-different-refinements"

// c03RuneKnown: the part of strconv's printable table the model knows (isPrintKnown != none).
func c03RuneKnown(c rune) bool {
	switch {
	case c <= 0x377:
		return true
	case c >= 0x1100 && c <= 0x11FF, c >= 0x2000 && c <= 0x202F, c >= 0x2100 && c <= 0x213F,
		c >= 0xAC00 && c <= 0xD7A3, c >= 0xFB00 && c <= 0xFB06, c == 0xFFFD,
		c >= 0x1F1E6 && c <= 0x1F1FF, c >= 0x1F300 && c <= 0x1F64F:
		return true
	}
	return false
}

func c03StrQuotable(s string) bool {
	for _, r := range s {
		if !c03RuneKnown(r) {
			return false
		}
	}
	return true
}

func c03TyPlain(t cty.Type) bool {
	switch {
	case t.IsSetType() || t.IsCapsuleType():
		return false
	case t.IsListType() || t.IsMapType():
		return c03TyPlain(t.ElementType())
	case t.IsTupleType():
		for _, e := range t.TupleElementTypes() {
			if !c03TyPlain(e) {
				return false
			}
		}
	case t.IsObjectType():
		for _, e := range t.AttributeTypes() {
			if !c03TyPlain(e) {
				return false
			}
		}
	}
	return true
}

// c03Walk: all numbers integers? all strings / keys quotable?  (through the public API only)
func c03Walk(v cty.Value, ints, quot *bool) {
	if v.IsMarked() {
		v, _ = v.Unmark()
	}
	t := v.Type()
	if t.IsObjectType() && v.IsKnown() && !v.IsNull() {
		for k := range t.AttributeTypes() {
			if !c03StrQuotable(k) {
				*quot = false
			}
		}
	}
	if !v.IsKnown() || v.IsNull() {
		return
	}
	switch {
	case t == cty.Number:
		if !v.AsBigFloat().IsInt() {
			*ints = false
		}
	case t == cty.String:
		if !c03StrQuotable(v.AsString()) {
			*quot = false
		}
	case t.IsMapType():
		for k, e := range v.AsValueMap() {
			if !c03StrQuotable(k) {
				*quot = false
			}
			c03Walk(e, ints, quot)
		}
	case t.IsObjectType():
		for _, e := range v.AsValueMap() {
			c03Walk(e, ints, quot)
		}
	case t.IsListType() || t.IsSetType() || t.IsTupleType():
		for it := v.ElementIterator(); it.Next(); {
			_, e := it.Element()
			c03Walk(e, ints, quot)
		}
	}
}

type c03Flags struct{ plain, prim, intMember, quotable bool }

func c03FlagsOf(v cty.Value) c03Flags {
	t := v.Type()
	f := c03Flags{plain: c03TyPlain(t), prim: t == cty.String || t == cty.Bool || t == cty.Number}
	ints, quot := true, true
	c03Walk(v, &ints, &quot)
	f.intMember = ints && v.IsWhollyKnown() && !v.ContainsMarked()
	f.quotable = quot
	return f
}

func b01(b bool) string {
	if b {
		return "1"
	}
	return "0"
}

// c03Frontier: correspondence of the hypothesis predicates + their distribution.
func c03Frontier(ctx *Ctx, v cty.Value) c03Flags {
	f := c03FlagsOf(v)
	ctx.Add("c03.frontier", strings.Join([]string{b01(f.plain), b01(f.prim), b01(f.intMember), b01(f.quotable)}, " "), encVal(v))
	ctx.Tag(fmt.Sprintf("d03:frontier plain=%s prim=%s intMember=%s quotable=%s", b01(f.plain), b01(f.prim), b01(f.intMember), b01(f.quotable)))
	return f
}

func c03Dumps(vs []cty.Value) []string {
	out := make([]string, len(vs))
	for i, v := range vs {
		out[i] = cty.VerifDump(v)
	}
	return out
}

// c03OrderCase: SetVal of the same inputs in several orders: correspondence (setval,
// c03.primiter) and the order-independence predicate.  strict: the inputs are inside the
// proved frontier, any difference contradicts setVal_order_independent_partial.
func c03OrderCase(ctx *Ctx, ety cty.Type, in []cty.Value, orders int, site, sig, what string) {
	type built struct {
		l     []cty.Value
		s     cty.Value
		order []string
	}
	var bs []built
	for k := 0; k < orders; k++ {
		l := append([]cty.Value(nil), in...)
		if k == 1 {
			for i, j := 0, len(l)-1; i < j; i, j = i+1, j-1 {
				l[i], l[j] = l[j], l[i]
			}
		} else if k > 1 {
			ctx.R.Shuffle(len(l), func(i, j int) { l[i], l[j] = l[j], l[i] })
		}
		var b built
		b.l = l
		ws := make([]string, len(l))
		for i, x := range l {
			ws[i] = encVal(x)
		}
		pn, why := try(func() {
			b.s = cty.SetVal(l)
			b.order = c03Dumps(b.s.AsValueSlice())
		})
		ctx.Eval("d03 setval "+strings.Join(ws, " "), len(l) >= 2)
		ctx.Tag(fmt.Sprintf("d03:setval inputs=%s", map[bool]string{true: ">20", false: "<=20"}[len(l) > 20]))
		if pn {
			ctx.Add("setval", "panic", ws...)
			ctx.Fail(Failure{Site: site, Sig: "setval-panic", What: "SetVal / AsValueSlice panicked", Input: strings.Join(ws, " "), GoLit: "cty.SetVal([]cty.Value{" + strings.ReplaceAll(c03Lits(l...), " ; ", ", ") + "})", Outcome: why})
			continue
		}
		ctx.Add("setval", "ok "+encVal(b.s)+" | ("+strings.Join(b.order, " ")+")", ws...)
		if ety == cty.String || ety == cty.Bool || ety == cty.Number {
			ctx.Add("c03.primiter", "("+strings.Join(b.order, " ")+")", append([]string{encTy(ety)}, c03Dumps(l)...)...)
		}
		bs = append(bs, b)
	}
	for _, b := range bs[1:] {
		same := strings.Join(bs[0].order, " ") == strings.Join(b.order, " ")
		var raw bool
		try(func() { raw = bs[0].s.RawEquals(b.s) })
		if same && raw {
			continue
		}
		lit := func(l []cty.Value) string {
			return "cty.SetVal([]cty.Value{" + strings.ReplaceAll(c03Lits(l...), " ; ", ", ") + "})"
		}
		ctx.Fail(Failure{Site: site, Sig: sig, What: what,
			Input:   "setval " + strings.Join(c03Dumps(bs[0].l), " ") + "  vs  " + strings.Join(c03Dumps(b.l), " "),
			GoLit:   lit(bs[0].l) + " ; " + lit(b.l),
			Outcome: fmt.Sprintf("same iteration order %v, RawEquals %v: (%s) vs (%s)", same, raw, strings.Join(bs[0].order, " "), strings.Join(b.order, " "))})
	}
}

// c03UnkSig: the root cause applies only when two of the members are unknown and not RawEquals.
func c03UnkSig(vs ...cty.Value) string {
	for i := range vs {
		for j := i + 1; j < len(vs); j++ {
			if !vs[i].IsKnown() && !vs[j].IsKnown() && !vs[i].RawEquals(vs[j]) {
				return c03SigUnkTied
			}
		}
	}
	return "unexplained"
}

func c03IntAt(z *big.Int, prec uint) cty.Value {
	return cty.NumberVal(new(big.Float).SetPrec(prec).SetInt(z))
}

func runC03D03(ctx *Ctx) {
	strictWhat := "INSIDE the proved frontier (primitive element type, wholly known members, integers): sets built from the same members in different orders differ — contradicts C03.setVal_order_independent_partial"
	two70 := new(big.Int).Lsh(big.NewInt(1), 70)
	ten30, _ := new(big.Int).SetString("1000000000000000000000000000000", 10)
	negZero := cty.NumberVal(new(big.Float).Neg(new(big.Float).SetInt64(0)))
	// 1. pools inside the frontier
	ints := []cty.Value{cty.NumberFloatVal(1180591620717411303424), cty.MustParseNumberVal("1180591620717411303424"), c03IntAt(two70, 64),
		cty.NumberIntVal(3), cty.MustParseNumberVal("3"), cty.NumberFloatVal(3), cty.NumberIntVal(-5), cty.Zero, negZero,
		cty.MustParseNumberVal("1e22"), cty.NumberFloatVal(1e22), c03IntAt(ten30, 512), c03IntAt(ten30, 53)}
	pools := []c03Pool{{"d03/ints", c03DedupVals(ints, 13)}}
	for k := 0; k < ctx.N(2, 30); k++ { // random integers, each at several precisions (rounding keeps them integers)
		var vs []cty.Value
		for j := 0; j < 3; j++ {
			z := new(big.Int).Rand(ctx.R, new(big.Int).Lsh(big.NewInt(1), uint(1+ctx.R.Intn(200))))
			if ctx.R.Intn(3) == 0 {
				z.Neg(z)
			}
			for _, p := range []uint{24, 53, 64, 512} {
				if ctx.R.Intn(2) == 0 {
					vs = append(vs, c03IntAt(z, p))
				}
			}
		}
		if vs = c03DedupVals(vs, 7); len(vs) >= 2 {
			pools = append(pools, c03Pool{"d03/ints", vs})
		}
	}
	var strs []cty.Value
	for _, s := range c03Strs {
		strs = append(strs, cty.StringVal(s))
	}
	pools = append(pools, c03Pool{"d03/strings", c03DedupVals(strs, 9)}, c03Pool{"d03/bools", []cty.Value{cty.True, cty.False}})
	for pi, p := range pools {
		inside := true
		for _, v := range p.vals {
			f := c03Frontier(ctx, v)
			inside = inside && f.plain && f.prim && f.intMember
		}
		if !inside {
			ctx.Fail(Failure{Site: "d03-frontier", Sig: "pool-not-inside-frontier", What: "a pool built to lie inside the proved frontier does not (harness bug)", Input: p.name, Outcome: "flags"})
			continue
		}
		withNull := c03Pool{p.name, append(append([]cty.Value(nil), p.vals...), cty.NullVal(p.vals[0].Type()))}
		full := 1
		if strings.HasSuffix(p.name, "bools") || (ctx.Thorough && (pi == 0 || strings.HasSuffix(p.name, "strings"))) {
			full = 2
		}
		c03DoPool(ctx, withNull, full)
		// distinct members (one representative per Equals class), every order sampled
		m := c03Matrix(withNull)
		var reps []cty.Value
		for i := range withNull.vals {
			dup := false
			for j := 0; j < i; j++ {
				if m.eqT[i][j] {
					dup = true
				}
			}
			if !dup {
				reps = append(reps, withNull.vals[i])
			}
		}
		if len(reps) >= 2 {
			if len(reps) > 6 {
				reps = reps[:6]
			}
			c03OrderCase(ctx, reps[0].Type(), reps, ctx.N(4, 12), c03SiteOrder, "inside-proved-frontier", strictWhat)
		}
		// the same members inside plain compound types: still inside the frontier of the hash / lawfulness theorems
		if pi < 2 || ctx.Thorough {
			for _, k := range []string{"tuple1", "list2", "map1", "obj"} {
				wp := c03WrapPool(p.name, k, p.vals)
				for _, v := range wp.vals {
					c03Frontier(ctx, v)
				}
				c03DoPool(ctx, wp, 1)
			}
		}
	}
	// values OUTSIDE the part of the printable-rune table the model knows: quotable = 0
	for _, v := range []cty.Value{cty.StringVal("Ж"), cty.MapVal(map[string]cty.Value{"Ж": cty.True}), cty.ListVal([]cty.Value{cty.StringVal("a\u0400")}),
		cty.ObjectVal(map[string]cty.Value{"ж": cty.NumberIntVal(1)}), cty.NumberFloatVal(0.5), cty.TupleVal([]cty.Value{cty.PositiveInfinity}),
		cty.SetVal([]cty.Value{cty.NumberIntVal(1)}), cty.StringVal("x").Mark("m"), cty.DynamicVal} {
		c03Frontier(ctx, v)
	}
	// 2. more than 20 members: beyond the single insertion-sort block of sort.SliceStable
	for k := 0; k < ctx.N(3, 12); k++ {
		n := 21 + ctx.R.Intn(20)
		var in []cty.Value
		kind := k % 3
		for i := 0; i < n; i++ {
			switch kind {
			case 0:
				z := new(big.Int).Mul(big.NewInt(int64(i-n/2)), new(big.Int).Lsh(big.NewInt(1), uint(ctx.R.Intn(3)*40)))
				in = append(in, c03IntAt(z, []uint{53, 64, 512}[ctx.R.Intn(3)]))
			case 1:
				in = append(in, cty.StringVal(fmt.Sprintf("%c%d", 'a'+rune(ctx.R.Intn(3)), i)))
			default:
				in = append(in, cty.TupleVal([]cty.Value{cty.NumberIntVal(int64(i * 7919)), cty.StringVal("s")}))
			}
		}
		in = c03DedupVals(in, 64)
		for _, v := range in[:2] {
			c03Frontier(ctx, v)
		}
		site, sig, what := c03SiteOrder, "inside-proved-frontier", strictWhat
		if kind == 2 { // tuples: Less compares hash bytes; distinct hash bytes here, so still a strict order
			sig, what = "large-set-of-tuples", "sets of > 20 tuples with pairwise different hash bytes built in different orders differ"
		}
		c03OrderCase(ctx, in[0].Type(), in, 3, site, sig, what)
	}
	// 3. unknown members: Less(unknown, unknown) is false both ways whatever the refinements
	unkS := []cty.Value{cty.UnknownVal(cty.String), cty.UnknownVal(cty.String).RefineNotNull(),
		cty.UnknownVal(cty.String).Refine().StringPrefix("ab").NewValue(), cty.StringVal("a"), cty.NullVal(cty.String)}
	unkN := []cty.Value{cty.UnknownVal(cty.Number), cty.UnknownVal(cty.Number).RefineNotNull(),
		cty.UnknownVal(cty.Number).Refine().NumberRangeLowerBound(cty.NumberIntVal(1), true).NewValue(), cty.NumberIntVal(7), cty.NullVal(cty.Number)}
	whatUnk := "two sets built from the same members in different insertion orders iterate differently / are not RawEquals: setRules.Less orders two UNKNOWN members neither way (`else if !v1v.IsKnown() { return false }`) although their refinements differ, so they are not RawEquals and keep insertion order"
	for _, pool := range [][]cty.Value{unkS, unkN} {
		for _, v := range pool {
			c03Frontier(ctx, v)
		}
		for i := 0; i < len(pool); i++ {
			for j := i + 1; j < len(pool); j++ {
				c03OrderCase(ctx, pool[0].Type(), []cty.Value{pool[i], pool[j]}, 2, c03SiteOrder, c03UnkSig(pool[i], pool[j]), whatUnk)
				for k := j + 1; k < len(pool); k++ {
					c03OrderCase(ctx, pool[0].Type(), []cty.Value{pool[i], pool[j], pool[k]}, 3, c03SiteOrder, c03UnkSig(pool[i], pool[j], pool[k]), whatUnk)
				}
			}
		}
	}
}
