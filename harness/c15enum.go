package main

// C15 small scope, enumerated: every value of a small menu for every type of size <= 2
// (quick) / <= 3 (thorough) against EVERY constraint obtained by replacing any subset of
// its sub-type positions by the placeholder (and marking the attributes of any subset of the
// object constraints optional).

import (
	"fmt"

	"github.com/zclconf/go-cty/cty"
)

func c15EnumTys(size int, memo map[int][]cty.Type) []cty.Type {
	if v, ok := memo[size]; ok {
		return v
	}
	var out []cty.Type
	if size == 1 {
		out = []cty.Type{cty.Bool, cty.Number, cty.String, cty.EmptyTuple, cty.EmptyObject}
	} else {
		for _, e := range c15EnumTys(size-1, memo) {
			out = append(out, cty.List(e), cty.Set(e), cty.Map(e), cty.Tuple([]cty.Type{e}), cty.Object(map[string]cty.Type{"a": e}))
		}
		for s1 := 1; s1 <= size-2; s1++ {
			s2 := size - 1 - s1
			for _, e1 := range c15EnumTys(s1, memo) {
				for _, e2 := range c15EnumTys(s2, memo) {
					out = append(out, cty.Tuple([]cty.Type{e1, e2}), cty.Object(map[string]cty.Type{"a": e1, "b": e2}))
				}
			}
		}
	}
	memo[size] = out
	return out
}

// c15MenuVals: a small deterministic menu of values of type t (null first).
func c15MenuVals(t cty.Type) []cty.Value {
	out := []cty.Value{cty.NullVal(t)}
	switch {
	case t == cty.Bool:
		out = append(out, cty.True, cty.False)
	case t == cty.Number:
		out = append(out, cty.NumberIntVal(1), cty.NumberFloatVal(0.5), cty.MustParseNumberVal("-12.25e3"))
	case t == cty.String:
		out = append(out, cty.StringVal("a"), cty.StringVal(""), cty.StringVal("é\"\n"))
	case t.IsListType():
		m := c15MenuVals(t.ElementType())
		out = append(out, cty.ListValEmpty(t.ElementType()), cty.ListVal([]cty.Value{m[1]}), cty.ListVal([]cty.Value{m[len(m)-1], m[0]}))
	case t.IsSetType():
		m := c15MenuVals(t.ElementType())
		out = append(out, cty.SetValEmpty(t.ElementType()), cty.SetVal([]cty.Value{m[1]}), cty.SetVal([]cty.Value{m[len(m)-1], m[0]}))
	case t.IsMapType():
		m := c15MenuVals(t.ElementType())
		out = append(out, cty.MapValEmpty(t.ElementType()), cty.MapVal(map[string]cty.Value{"k": m[1]}), cty.MapVal(map[string]cty.Value{"a": m[len(m)-1], "type": m[0]}))
	case t.IsTupleType():
		es := t.TupleElementTypes()
		for pick := 0; pick < 3; pick++ {
			vs := make([]cty.Value, len(es))
			for i, e := range es {
				m := c15MenuVals(e)
				vs[i] = m[(pick+i)%len(m)]
			}
			out = append(out, cty.TupleVal(vs))
			if len(es) == 0 {
				break
			}
		}
	case t.IsObjectType():
		atys := t.AttributeTypes()
		for pick := 0; pick < 3; pick++ {
			vs := map[string]cty.Value{}
			for i, k := range sortedKeys(atys) {
				m := c15MenuVals(atys[k])
				vs[k] = m[(pick+i)%len(m)]
			}
			out = append(out, cty.ObjectVal(vs))
			if len(atys) == 0 {
				break
			}
		}
	}
	return out
}

// c15AllWeakenings: every constraint obtained from t by replacing any set of sub-type
// positions by the placeholder (t itself included), object constraints also with all their
// attributes marked optional.
func c15AllWeakenings(t cty.Type) []cty.Type {
	out := []cty.Type{cty.DynamicPseudoType}
	switch {
	case t.IsListType():
		for _, e := range c15AllWeakenings(t.ElementType()) {
			out = append(out, cty.List(e))
		}
	case t.IsSetType():
		for _, e := range c15AllWeakenings(t.ElementType()) {
			out = append(out, cty.Set(e))
		}
	case t.IsMapType():
		for _, e := range c15AllWeakenings(t.ElementType()) {
			out = append(out, cty.Map(e))
		}
	case t.IsTupleType():
		combos := [][]cty.Type{{}}
		for _, e := range t.TupleElementTypes() {
			var next [][]cty.Type
			for _, c := range combos {
				for _, w := range c15AllWeakenings(e) {
					next = append(next, append(append([]cty.Type(nil), c...), w))
				}
			}
			combos = next
		}
		for _, c := range combos {
			out = append(out, cty.Tuple(c))
		}
	case t.IsObjectType():
		atys := t.AttributeTypes()
		keys := sortedKeys(atys)
		combos := []map[string]cty.Type{{}}
		for _, k := range keys {
			var next []map[string]cty.Type
			for _, c := range combos {
				for _, w := range c15AllWeakenings(atys[k]) {
					m := map[string]cty.Type{}
					for kk, vv := range c {
						m[kk] = vv
					}
					m[k] = w
					next = append(next, m)
				}
			}
			combos = next
		}
		for _, c := range combos {
			out = append(out, cty.Object(c))
			if len(keys) > 0 {
				// … and the same constraint with every attribute marked optional
				out = append(out, cty.ObjectWithOptionalAttrs(c, keys))
			}
		}
	default:
		out = append(out, t)
	}
	return out
}

func runC15Enum(ctx *Ctx) {
	maxSize := ctx.N(2, 3)
	memo := map[int][]cty.Type{}
	nT, nV, nC := 0, 0, 0
	for s := 1; s <= maxSize; s++ {
		for _, t := range c15EnumTys(s, memo) {
			nT++
			ws := c15AllWeakenings(t)
			for _, v := range c15MenuVals(t) {
				nV++
				for _, w := range ws {
					nC++
					c15RoundTrip(ctx, v, w, "enum")
				}
			}
		}
	}
	ctx.res.Exhaustive = true
	ctx.res.Scope = fmt.Sprintf("all %d types of size<=%d over {bool,number,string,list,set,map,tuple(<=2),object{a,b}} x a menu of %d values "+
		"(null, empty, singleton, pair with a null member; three numbers, three strings) x ALL %d constraints obtained by replacing any subset of "+
		"sub-type positions by the placeholder and marking the attributes of any subset of its object constraints optional: round trip, correspondence of Marshal and Unmarshal, and Lean's hypothesis predicates", nT, maxSize, nV, nC)
}
