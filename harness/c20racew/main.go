// c20racew — worker of the C20 check, built with `go build -race`.
//
// N goroutines run random READ-ONLY operations and accessors (and mutate what
// the accessors hand back) over one pool of shared cty values, types, a shared
// ValueSet and a shared PathSet.  Every result is compared with the result the
// same call gave sequentially before the goroutines started; the fingerprints
// of all shared values are compared before/after.  A data race reported by the
// race detector makes the process exit with code 66 (GORACE), a differing
// result with code 3.
//
// This SUPPORTS the write sets of the Lean model (API calls write only what
// they allocate); it is a test under the schedules that happened, not a proof
// of race freedom.
package main

import (
	"fmt"
	"math/big"
	"math/rand"
	"os"
	"sort"
	"strconv"
	"sync"

	"github.com/zclconf/go-cty/cty"
)

type op struct {
	name string
	f    func(r *rand.Rand, v cty.Value, w cty.Value) string
}

// show is canonical: the type and the payload dump (mark sets sorted); Value.GoString
// is not used because it prints mark sets in Go map order.
func show(v cty.Value) string { return v.Type().GoString() + " " + cty.VerifDump(v) }

func showAll(vs []cty.Value) string {
	s := fmt.Sprint(vs == nil)
	for _, v := range vs {
		s += show(v) + ";"
	}
	return s
}

func showMap(m map[string]cty.Value) string {
	ks := make([]string, 0, len(m))
	for k := range m {
		ks = append(ks, k)
	}
	sort.Strings(ks)
	s := fmt.Sprint(m == nil)
	for _, k := range ks {
		s += k + "=" + show(m[k]) + ";"
	}
	return s
}

func try(f func() string) (s string) {
	defer func() {
		if r := recover(); r != nil {
			s = "panic"
		}
	}()
	return f()
}

var ops = []op{
	{"Equals", func(_ *rand.Rand, v, w cty.Value) string { return show(v.Equals(w)) }},
	{"RawEquals", func(_ *rand.Rand, v, w cty.Value) string { return fmt.Sprint(v.RawEquals(w)) }},
	{"Add", func(_ *rand.Rand, v, w cty.Value) string { return show(v.Add(w)) }},
	{"Multiply", func(_ *rand.Rand, v, w cty.Value) string { return show(v.Multiply(w)) }},
	{"Negate", func(_ *rand.Rand, v, w cty.Value) string { return show(v.Negate()) }},
	{"LessThan", func(_ *rand.Rand, v, w cty.Value) string { return show(v.LessThan(w)) }},
	{"Not", func(_ *rand.Rand, v, w cty.Value) string { return show(v.Not()) }},
	{"And", func(_ *rand.Rand, v, w cty.Value) string { return show(v.And(w)) }},
	{"Length", func(_ *rand.Rand, v, w cty.Value) string { return show(v.Length()) }},
	{"LengthInt", func(_ *rand.Rand, v, w cty.Value) string { return fmt.Sprint(v.LengthInt()) }},
	{"HasIndex", func(_ *rand.Rand, v, w cty.Value) string { return show(v.HasIndex(w)) }},
	{"Index", func(_ *rand.Rand, v, w cty.Value) string { return show(v.Index(w)) }},
	{"Index0", func(_ *rand.Rand, v, w cty.Value) string { return show(v.Index(cty.NumberIntVal(0))) }},
	{"GetAttr", func(_ *rand.Rand, v, w cty.Value) string { return show(v.GetAttr("a")) }},
	{"HasElement", func(_ *rand.Rand, v, w cty.Value) string { return show(v.HasElement(w)) }},
	{"IsKnown", func(_ *rand.Rand, v, w cty.Value) string {
		return fmt.Sprint(v.IsKnown(), v.IsNull(), v.IsWhollyKnown(), v.IsMarked(), v.ContainsMarked())
	}},
	{"Hash", func(_ *rand.Rand, v, w cty.Value) string { return fmt.Sprint(v.Hash()) }},
	{"Range", func(_ *rand.Rand, v, w cty.Value) string { return fmt.Sprintf("%#v", v.Range().TypeConstraint()) }},
	{"Type", func(_ *rand.Rand, v, w cty.Value) string {
		t := v.Type()
		return fmt.Sprint(t.GoString(), t.FriendlyName(), t.Equals(w.Type()), t.HasDynamicTypes(), len(t.TestConformance(w.Type())))
	}},
	{"AsBigFloat+mutate", func(r *rand.Rand, v, w cty.Value) string {
		f := v.AsBigFloat()
		s := f.Text('g', -1)
		f.SetInt64(int64(r.Intn(1000))) // the caller's own copy
		return s
	}},
	{"AsValueSlice+mutate", func(r *rand.Rand, v, w cty.Value) string {
		sl := v.AsValueSlice()
		s := showAll(sl)
		if len(sl) > 0 {
			sl[r.Intn(len(sl))] = w
			sl = append(sl, w)
		}
		return s
	}},
	{"AsValueMap+mutate", func(r *rand.Rand, v, w cty.Value) string {
		m := v.AsValueMap()
		s := showMap(m)
		if m != nil {
			m["zz"] = w
			delete(m, "a")
		}
		return s
	}},
	{"AsValueSet+Add", func(r *rand.Rand, v, w cty.Value) string {
		vs := v.AsValueSet()
		s := showAll(vs.Values())
		if w.Type().Equals(vs.ElementType()) && !w.IsMarked() {
			vs.Add(w)
			vs.Remove(w)
		}
		return s
	}},
	{"ForEachElement", func(_ *rand.Rand, v, w cty.Value) string {
		s := ""
		v.ForEachElement(func(k, e cty.Value) bool { s += show(k) + "=" + show(e) + ";"; return false })
		return s
	}},
	{"Marks+mutate", func(r *rand.Rand, v, w cty.Value) string {
		m := v.Marks()
		s := fmt.Sprint(len(m))
		if m != nil {
			m["extra"] = struct{}{}
		}
		return s
	}},
	{"Unmark+mutate", func(r *rand.Rand, v, w cty.Value) string {
		u, m := v.Unmark()
		if m != nil {
			m["extra"] = struct{}{}
		}
		d, _ := v.UnmarkDeep()
		return show(u) + show(d)
	}},
	{"Mark", func(_ *rand.Rand, v, w cty.Value) string { return show(v.Mark("x").WithSameMarks(w)) }},
	{"Walk", func(_ *rand.Rand, v, w cty.Value) string {
		s := ""
		cty.Walk(v, func(p cty.Path, x cty.Value) (bool, error) { s += fmt.Sprintf("%#v:%s;", p.Copy(), x.Type().FriendlyName()); return true, nil })
		return s
	}},
	{"Transform", func(_ *rand.Rand, v, w cty.Value) string {
		t, err := cty.Transform(v, func(p cty.Path, x cty.Value) (cty.Value, error) { return x, nil })
		return show(t) + fmt.Sprint(err)
	}},
	{"ListVal", func(_ *rand.Rand, v, w cty.Value) string { return show(cty.ListVal([]cty.Value{v, v})) }},
	{"TupleVal", func(_ *rand.Rand, v, w cty.Value) string { return show(cty.TupleVal([]cty.Value{v, w})) }},
	{"ObjectVal", func(_ *rand.Rand, v, w cty.Value) string {
		return show(cty.ObjectVal(map[string]cty.Value{"p": v, "q": w}))
	}},
	{"SetVal", func(_ *rand.Rand, v, w cty.Value) string { return show(cty.SetVal([]cty.Value{v, v})) }},
}

func pool() []cty.Value {
	bf := new(big.Float).SetInt64(42)
	n := cty.NumberVal(bf)
	s := cty.StringVal("hello")
	l := cty.ListVal([]cty.Value{cty.NumberIntVal(1), cty.NumberIntVal(2), n})
	st := cty.SetVal([]cty.Value{cty.StringVal("a"), cty.StringVal("b"), cty.StringVal("c")})
	us := cty.SetVal([]cty.Value{cty.UnknownVal(cty.String), cty.UnknownVal(cty.String).Refine().StringPrefixFull("x").NewValue(), cty.StringVal("k")})
	m := cty.MapVal(map[string]cty.Value{"a": cty.NumberIntVal(1), "b": n})
	o := cty.ObjectVal(map[string]cty.Value{"a": s, "b": l, "c": cty.UnknownVal(cty.Number), "d": st})
	t := cty.TupleVal([]cty.Value{s, n, o})
	deep := cty.ListVal([]cty.Value{cty.ListVal([]cty.Value{cty.ListVal([]cty.Value{cty.ListVal([]cty.Value{s, cty.StringVal("y")})})})})
	return []cty.Value{
		n, s, cty.True, cty.NumberIntVal(0), cty.StringVal("a"), cty.NullVal(cty.String), cty.UnknownVal(cty.Number), cty.DynamicVal,
		cty.UnknownVal(cty.Number).Refine().NotNull().NumberRangeLowerBound(cty.NumberIntVal(1), true).NewValue(),
		l, st, us, m, o, t, deep, o.Mark("secret"), l.Mark("m1").Mark("m2"),
		cty.ObjectVal(map[string]cty.Value{"a": s.Mark("inner"), "b": l}),
		cty.ListValEmpty(cty.String), cty.EmptyObjectVal, cty.EmptyTupleVal, cty.SetValEmpty(cty.Number), cty.MapValEmpty(cty.Bool),
	}
}

func main() {
	seed, _ := strconv.ParseInt(os.Args[1], 10, 64)
	g, _ := strconv.Atoi(os.Args[2])
	iters, _ := strconv.Atoi(os.Args[3])
	vals := pool()
	// shared helper sets: read-only use, and copies that each goroutine mutates
	shared := cty.NewValueSet(cty.String)
	for _, x := range []string{"a", "b", "c"} {
		shared.Add(cty.StringVal(x))
	}
	for i := 0; i < 3; i++ { // one bucket with spare capacity: all unknowns hash alike
		shared.Add(cty.UnknownVal(cty.String).Refine().StringPrefixFull(fmt.Sprint("u", i)).NewValue())
	}
	if len(os.Args) > 4 && os.Args[4] == "selftest" {
		// the detector must be alive: concurrent Add on ONE ValueSet is a documented
		// misuse ("Set mutations are not concurrency-safe") and a genuine data race
		var wg sync.WaitGroup
		for t := 0; t < g; t++ {
			wg.Add(1)
			go func(t int) {
				defer wg.Done()
				for k := 0; k < 200; k++ {
					shared.Add(cty.StringVal(fmt.Sprint("g", t, "-", k)))
				}
			}(t)
		}
		wg.Wait()
		fmt.Println("SELFTEST no race seen")
		return
	}
	sharedPS := cty.NewPathSet(cty.GetAttrPath("a"), cty.GetAttrPath("a").IndexInt(1), cty.IndexStringPath("k"))
	// expected results, computed sequentially
	nv := len(vals)
	expect := make([]string, len(ops)*nv*nv)
	det := rand.New(rand.NewSource(1))
	for o := range ops {
		for i := 0; i < nv; i++ {
			for j := 0; j < nv; j++ {
				expect[(o*nv+i)*nv+j] = try(func() string { return ops[o].f(det, vals[i], vals[j]) })
			}
		}
	}
	// calls that return: the goroutines draw 7 of 8 calls from these (a recovered panic —
	// a call outside the method's contract, e.g. Add on strings — is compared "panic" ==
	// "panic" and exercises little)
	var valid [][3]int
	for o := range ops {
		for i := 0; i < nv; i++ {
			for j := 0; j < nv; j++ {
				if expect[(o*nv+i)*nv+j] != "panic" {
					valid = append(valid, [3]int{o, i, j})
				}
			}
		}
	}
	before := make([]string, nv)
	for i, v := range vals {
		before[i] = show(v)
	}
	sharedBefore := showAll(shared.Values())
	psBefore := fmt.Sprintf("%#v", sharedPS.List())
	var wg sync.WaitGroup
	var mu sync.Mutex
	diffs := []string{}
	calls, panicCalls := 0, 0
	for t := 0; t < g; t++ {
		wg.Add(1)
		go func(t int) {
			defer wg.Done()
			r := rand.New(rand.NewSource(seed*1000 + int64(t)))
			n, np := 0, 0
			for k := 0; k < iters; k++ {
				o, i, j := r.Intn(len(ops)), r.Intn(nv), r.Intn(nv)
				if k%8 != 0 {
					t := valid[r.Intn(len(valid))]
					o, i, j = t[0], t[1], t[2]
				}
				got := try(func() string { return ops[o].f(r, vals[i], vals[j]) })
				n++
				if got == "panic" {
					np++
				}
				if got != expect[(o*nv+i)*nv+j] {
					mu.Lock()
					diffs = append(diffs, fmt.Sprintf("%s(#%d, #%d): sequential %.200q, concurrent %.200q", ops[o].name, i, j, expect[(o*nv+i)*nv+j], got))
					mu.Unlock()
				}
				if k%8 == 0 {
					// helper sets: read the shared ones, mutate private copies
					c := shared.Copy()
					c.Add(cty.StringVal(fmt.Sprint("g", t)))
					c.Add(cty.UnknownVal(cty.String).Refine().StringPrefixFull(fmt.Sprint("g", t)).NewValue())
					c.Remove(cty.StringVal("a"))
					if !shared.Has(cty.StringVal("a")) || shared.Length() != 6 || showAll(shared.Values()) != sharedBefore {
						mu.Lock()
						diffs = append(diffs, "shared ValueSet changed under Copy+Add in another goroutine")
						mu.Unlock()
					}
					v := cty.SetValFromValueSet(shared)
					_ = v.LengthInt()
					if !sharedPS.Has(cty.GetAttrPath("a").IndexInt(1)) || fmt.Sprintf("%#v", sharedPS.List()) != psBefore {
						mu.Lock()
						diffs = append(diffs, "shared PathSet changed")
						mu.Unlock()
					}
					u := sharedPS.Union(cty.NewPathSet(cty.GetAttrPath(fmt.Sprint("g", t))))
					_ = u.List()
				}
			}
			mu.Lock()
			calls += n
			panicCalls += np
			mu.Unlock()
		}(t)
	}
	wg.Wait()
	for i, v := range vals {
		if show(v) != before[i] {
			diffs = append(diffs, fmt.Sprintf("shared value #%d changed: %.200q -> %.200q", i, before[i], show(v)))
		}
	}
	fmt.Printf("CALLS %d PANICS %d\n", calls, panicCalls)
	for i, d := range diffs {
		if i < 5 {
			fmt.Println("DIFF " + d)
		}
	}
	if len(diffs) > 0 {
		os.Exit(3)
	}
}
