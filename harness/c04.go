package main

// C04 — marks: non-interference, no loss, no invention.
//
// Every case runs the REAL code twice — on operands carrying marks and on the
// same operands with every mark stripped — and judges the property's three
// clauses on the two outcomes:
//   non-interference  same outcome class, and UnmarkDeep(marked result) is the clean result
//   no loss           every promised mark of an operand is on the result
//   no invention      every mark anywhere in the result is somewhere in an operand
// It also diffs the whole marks API, the collection constructors' mark handling
// and the conversion wrapper against the Lean model (ops mk.*), and sends the
// implementation's own outputs to the Lean predicate (mk.judge).
//
// c04.go:  operation methods, marks API, constructors.   c04b.go: Function.Call
// with spy callbacks, convert, a sample of the standard library.

import (
	"fmt"
	"sort"
	"strings"

	"github.com/zclconf/go-cty/cty"
)

func init() {
	register("C04", "paired marked/unmarked runs of every operation method (and NotEqual, <=, >=), the marks API, SetVal/ListVal/MapVal, Function.Call with spy callbacks, "+
		"convert.Convert, a table of well-typed stdlib calls and every exported stdlib function on arguments drawn from its parameter types. Small scope enumerated: per-family operand menus (known, unknown, refined unknown, null, DynamicVal; "+
		"collections and structures of up to three nodes) x every assignment of {no mark, {m1}, {m2,m3}} to every node of every operand; plus generated operands of "+
		"depth <= 3 with random marks at every depth. non-trivial = at least one mark present on some operand; distinct = distinct canonical wire strings of (op, operands)", runC04)
}

var c04MarkNames = []string{"m1", "m2", "m3"}

// ---- marks as sorted string sets ------------------------------------------------

func c04MarkSet(ms cty.ValueMarks) []string {
	out := make([]string, 0, len(ms))
	for m := range ms {
		out = append(out, fmt.Sprint(m))
	}
	sort.Strings(out)
	return out
}

func c04MarksWire(ms []string) string {
	w := make([]string, len(ms))
	for i, m := range ms {
		w[i] = encStr(m)
	}
	sort.Strings(w)
	return "(" + strings.Join(w, " ") + ")"
}

func c04VM(ms ...string) cty.ValueMarks {
	vm := cty.ValueMarks{}
	for _, m := range ms {
		vm[m] = struct{}{}
	}
	return vm
}

// c04Deep collects every mark at any depth with an independent walker
// (Unmark + ElementIterator only; not UnmarkDeep / Walk).
func c04Deep(v cty.Value, acc map[string]struct{}) {
	u, ms := v.Unmark()
	for m := range ms {
		acc[fmt.Sprint(m)] = struct{}{}
	}
	if u.IsNull() || !u.IsKnown() {
		return
	}
	if u.CanIterateElements() {
		for it := u.ElementIterator(); it.Next(); {
			_, ev := it.Element()
			c04Deep(ev, acc)
		}
	}
}

func c04DeepSet(vs ...cty.Value) map[string]struct{} {
	acc := map[string]struct{}{}
	for _, v := range vs {
		c04Deep(v, acc)
	}
	return acc
}

func c04Keys(m map[string]struct{}) []string {
	out := make([]string, 0, len(m))
	for k := range m {
		out = append(out, k)
	}
	sort.Strings(out)
	return out
}

func c04Subset(a []string, b map[string]struct{}) (string, bool) {
	for _, m := range a {
		if _, ok := b[m]; !ok {
			return m, false
		}
	}
	return "", true
}

func c04TopSet(v cty.Value) map[string]struct{} {
	acc := map[string]struct{}{}
	for m := range v.Marks() {
		acc[fmt.Sprint(m)] = struct{}{}
	}
	return acc
}

// ---- rebuilding a value with marks placed on chosen nodes -----------------------

// c04Remark rebuilds v with the constructors; node number k (preorder; members
// in iterator order, attributes by name) additionally gets the marks pick(k).
// Marks already present stay. Members of a set go through SetVal, which hoists.
func c04Remark(v cty.Value, k *int, pick func(k int) []string) cty.Value {
	u, own := v.Unmark()
	idx := *k
	*k++
	out := u
	ty := u.Type()
	switch {
	case u.IsNull() || !u.IsKnown():
	case ty.IsListType() || ty.IsSetType() || ty.IsTupleType():
		if u.LengthInt() > 0 {
			var elems []cty.Value
			for it := u.ElementIterator(); it.Next(); {
				_, ev := it.Element()
				elems = append(elems, c04Remark(ev, k, pick))
			}
			switch {
			case ty.IsListType():
				out = cty.ListVal(elems)
			case ty.IsSetType():
				out = cty.SetVal(elems)
			default:
				out = cty.TupleVal(elems)
			}
		}
	case ty.IsMapType():
		if u.LengthInt() > 0 {
			elems := map[string]cty.Value{}
			for it := u.ElementIterator(); it.Next(); {
				kv, ev := it.Element()
				elems[kv.AsString()] = c04Remark(ev, k, pick)
			}
			out = cty.MapVal(elems)
		}
	case ty.IsObjectType():
		if len(ty.AttributeTypes()) > 0 {
			attrs := map[string]cty.Value{}
			for _, name := range sortedKeys(ty.AttributeTypes()) {
				attrs[name] = c04Remark(u.GetAttr(name), k, pick)
			}
			out = cty.ObjectVal(attrs)
		}
	}
	if len(own) > 0 {
		out = out.WithMarks(own)
	}
	if ms := pick(idx); len(ms) > 0 {
		out = out.WithMarks(c04VM(ms...))
	}
	return out
}

func c04Nodes(v cty.Value) int {
	k := 0
	c04Remark(v, &k, func(int) []string { return nil })
	return k
}

var c04Menu = [][]string{nil, {"m1"}, {"m2", "m3"}}

// c04GenPanics: a constructor panicked while a generator was rebuilding a value
// with marks placed on it (value, panic text) — reported as a failure of the
// constructors clause, never a crash of the check.
var c04GenPanics [][2]string

// c04Placements: every assignment of the three-entry mark menu to the nodes of v
// when v has at most three nodes; otherwise each single node marked (two ways),
// the top node with each menu entry, and all nodes at once with rotating marks.
// Duplicates (set hoisting makes some placements coincide) are removed.
func c04Placements(v cty.Value) []cty.Value {
	n := c04Nodes(v)
	seen := map[string]bool{}
	var out []cty.Value
	add := func(pick func(int) []string) {
		k := 0
		var w cty.Value
		if p, why := try(func() { w = c04Remark(v, &k, pick) }); p {
			c04GenPanics = append(c04GenPanics, [2]string{encVal(v), why})
			return
		}
		e := encVal(w)
		if !seen[e] {
			seen[e] = true
			out = append(out, w)
		}
	}
	if n <= 3 {
		total := 1
		for i := 0; i < n; i++ {
			total *= 3
		}
		for code := 0; code < total; code++ {
			c := code
			add(func(k int) []string {
				x := c
				for i := 0; i < k; i++ {
					x /= 3
				}
				return c04Menu[x%3]
			})
		}
		return out
	}
	add(func(int) []string { return nil })
	for node := 0; node < n; node++ {
		nd := node
		add(func(k int) []string {
			if k == nd {
				return c04Menu[1]
			}
			return nil
		})
		add(func(k int) []string {
			if k == nd {
				return c04Menu[2]
			}
			if k == 0 {
				return c04Menu[1]
			}
			return nil
		})
	}
	add(func(k int) []string { return []string{c04MarkNames[k%3]} })
	return out
}

// c04RandomMarks places random subsets of the three marks on random nodes.
func c04RandomMarks(ctx *Ctx, v cty.Value) (out cty.Value) {
	k := 0
	p := 2 + ctx.R.Intn(4)
	defer func() {
		if r := recover(); r != nil {
			c04GenPanics = append(c04GenPanics, [2]string{encVal(v), fmt.Sprint(r)})
			out = v
		}
	}()
	return c04Remark(v, &k, func(int) []string {
		if ctx.R.Intn(p) != 0 {
			return nil
		}
		var ms []string
		for _, m := range c04MarkNames {
			if ctx.R.Intn(2) == 0 {
				ms = append(ms, m)
			}
		}
		if len(ms) == 0 {
			ms = []string{c04MarkNames[ctx.R.Intn(3)]}
		}
		return ms
	})
}

// ---- operation methods ------------------------------------------------------------

type c04Op struct {
	name  string
	arity int
	extra string // "" | "attr" | "hash"
	deep  []bool // operand i promises its marks at every depth
	call  func(a []cty.Value, attr string) cty.Value
	model bool // modelled (else predicate only)
}

var c04Ops = []c04Op{
	{"equals", 2, "", []bool{true, true}, func(a []cty.Value, _ string) cty.Value { return a[0].Equals(a[1]) }, true},
	{"add", 2, "", nil, func(a []cty.Value, _ string) cty.Value { return a[0].Add(a[1]) }, true},
	{"sub", 2, "", nil, func(a []cty.Value, _ string) cty.Value { return a[0].Subtract(a[1]) }, true},
	{"mul", 2, "", nil, func(a []cty.Value, _ string) cty.Value { return a[0].Multiply(a[1]) }, true},
	{"div", 2, "", nil, func(a []cty.Value, _ string) cty.Value { return a[0].Divide(a[1]) }, true},
	{"mod", 2, "", nil, func(a []cty.Value, _ string) cty.Value { return a[0].Modulo(a[1]) }, true},
	{"neg", 1, "", nil, func(a []cty.Value, _ string) cty.Value { return a[0].Negate() }, true},
	{"abs", 1, "", nil, func(a []cty.Value, _ string) cty.Value { return a[0].Absolute() }, true},
	{"not", 1, "", nil, func(a []cty.Value, _ string) cty.Value { return a[0].Not() }, true},
	{"and", 2, "", nil, func(a []cty.Value, _ string) cty.Value { return a[0].And(a[1]) }, true},
	{"or", 2, "", nil, func(a []cty.Value, _ string) cty.Value { return a[0].Or(a[1]) }, true},
	{"lt", 2, "", nil, func(a []cty.Value, _ string) cty.Value { return a[0].LessThan(a[1]) }, true},
	{"gt", 2, "", nil, func(a []cty.Value, _ string) cty.Value { return a[0].GreaterThan(a[1]) }, true},
	{"index", 2, "", nil, func(a []cty.Value, _ string) cty.Value { return a[0].Index(a[1]) }, true},
	{"hasindex", 2, "", nil, func(a []cty.Value, _ string) cty.Value { return a[0].HasIndex(a[1]) }, true},
	{"length", 1, "", nil, func(a []cty.Value, _ string) cty.Value { return a[0].Length() }, true},
	{"getattr", 1, "attr", nil, func(a []cty.Value, n string) cty.Value { return a[0].GetAttr(n) }, true},
	{"haselement", 2, "hash", []bool{false, true}, func(a []cty.Value, _ string) cty.Value { return a[0].HasElement(a[1]) }, true},
	// compositions of the above (Equals is part of each, so marks are kept at every depth)
	{"notequal", 2, "", []bool{true, true}, func(a []cty.Value, _ string) cty.Value { return a[0].NotEqual(a[1]) }, true},
	{"le", 2, "", []bool{true, true}, func(a []cty.Value, _ string) cty.Value { return a[0].LessThanOrEqualTo(a[1]) }, true},
	{"ge", 2, "", []bool{true, true}, func(a []cty.Value, _ string) cty.Value { return a[0].GreaterThanOrEqualTo(a[1]) }, true},
}

func c04OpByName(name string) *c04Op {
	for i := range c04Ops {
		if c04Ops[i].name == name {
			return &c04Ops[i]
		}
	}
	panic("no op " + name)
}

// c04Hash: bucket id of the deeply unmarked value ("-" when hashing panics).
func c04Hash(v cty.Value) string {
	var h int
	p, _ := try(func() {
		u, _ := v.UnmarkDeep()
		h = cty.VerifHash(u)
	})
	if p {
		return "-"
	}
	return fmt.Sprint(h)
}

func c04Vals(vs []cty.Value) string {
	w := make([]string, len(vs))
	for i, v := range vs {
		w[i] = encVal(v)
	}
	return "(" + strings.Join(w, " ") + ")"
}

func c04GoLit(vs []cty.Value, extra string) string {
	var s string
	try(func() { s = fmt.Sprintf("%#v", vs) })
	if extra != "" {
		s += " ; " + extra
	}
	return s
}

func c04Out(out string) string {
	if strings.HasPrefix(out, "ok ") {
		return "(ok " + out[3:] + ")"
	}
	return out
}

// c04CheckOp: one paired run of an operation method.
func c04CheckOp(ctx *Ctx, op *c04Op, args []cty.Value, attr string) {
	clean := make([]cty.Value, len(args))
	for i, a := range args {
		clean[i], _ = a.UnmarkDeep()
	}
	outM, resM, pM := opOut(func() cty.Value { return op.call(args, attr) })
	outC, resC, pC := opOut(func() cty.Value { return op.call(clean, attr) })
	argMarks := c04DeepSet(args...)
	nontrivial := len(argMarks) > 0
	wire := make([]string, 0, 3)
	for _, a := range args {
		wire = append(wire, encVal(a))
	}
	extraW := "-"
	switch op.extra {
	case "attr":
		extraW = encStr(attr)
	case "hash":
		extraW = c04Hash(args[1])
	}
	key := op.name + " " + strings.Join(wire, " ") + " " + extraW
	ctx.Eval(key, nontrivial)
	ctx.Tag("paired:" + op.name)
	if op.model {
		w := append([]string{op.name}, wire...)
		if op.extra != "" {
			w = append(w, extraW)
		}
		ctx.Add("mk.op", outM, w...)
		ctx.Add("mk.judge", "pass", op.name, extraW, c04Vals(args), c04Out(outM), c04Out(outC))
	}
	lit := c04GoLit(args, attr)
	fail := func(site, sig, what, outcome string) {
		ctx.Fail(Failure{Site: site, Sig: sig, What: what, Input: key, GoLit: lit, Outcome: outcome})
	}
	if pM != pC {
		which := "marked-panics"
		if pC {
			which = "unmarked-panics"
		}
		fail("op-non-interference", op.name+":outcome:"+which, op.name+": the marked and the unmarked call differ in whether they panic", "marked: "+outM+" ; unmarked: "+outC)
		return
	}
	if pM {
		return
	}
	var stripped cty.Value
	same := false
	try(func() {
		stripped, _ = resM.UnmarkDeep()
		same = stripped.RawEquals(resC)
	})
	if !same {
		fail("op-non-interference", op.name+":result", op.name+": result on marked operands, unmarked, is not the result on unmarked operands", "marked: "+outM+" ; unmarked: "+outC)
	} else if encVal(stripped) != encVal(resC) {
		ctx.Tag("repr-differs:" + op.name)
	}
	top := c04TopSet(resM)
	for i, a := range args {
		promised, kind := c04MarkSet(a.Marks()), "top"
		if op.deep != nil && op.deep[i] {
			promised, kind = c04Keys(c04DeepSet(a)), "deep"
		}
		if m, ok := c04Subset(promised, top); !ok {
			fail("op-no-loss", fmt.Sprintf("%s:operand%d:%s", op.name, i, kind), fmt.Sprintf("%s: mark %q of operand %d is not on the result", op.name, m, i), outM)
		}
	}
	if m, ok := c04Subset(c04Keys(c04DeepSet(resM)), argMarks); !ok {
		fail("op-no-invention", op.name, fmt.Sprintf("%s: the result carries mark %q that no operand carries", op.name, m), outM)
	}
}

func c04Each(base []cty.Value) []cty.Value {
	var out []cty.Value
	for _, b := range base {
		out = append(out, c04Placements(b)...)
	}
	return out
}

func c04RefinedNum() cty.Value {
	return cty.UnknownVal(cty.Number).Refine().NotNull().NumberRangeLowerBound(cty.NumberIntVal(1), true).NumberRangeUpperBound(cty.NumberIntVal(3), false).NewValue()
}

var (
	c04NumBase = []cty.Value{cty.NumberIntVal(0), cty.NumberIntVal(1), cty.NumberIntVal(2), cty.NumberIntVal(-3), cty.NumberFloatVal(0.5),
		cty.MustParseNumberVal("0.1"), cty.PositiveInfinity, cty.UnknownVal(cty.Number), c04RefinedNum(), cty.NullVal(cty.Number), cty.DynamicVal, cty.StringVal("a")}
	c04BoolBase = []cty.Value{cty.True, cty.False, cty.UnknownVal(cty.Bool), cty.UnknownVal(cty.Bool).RefineNotNull(), cty.NullVal(cty.Bool), cty.DynamicVal, cty.NumberIntVal(1)}
	c04CollBase = []cty.Value{
		cty.ListVal([]cty.Value{cty.NumberIntVal(1), cty.NumberIntVal(2)}),
		cty.ListValEmpty(cty.Number),
		cty.ListVal([]cty.Value{cty.UnknownVal(cty.String)}),
		cty.ListVal([]cty.Value{cty.ListVal([]cty.Value{cty.StringVal("x")})}),
		cty.MapVal(map[string]cty.Value{"a": cty.StringVal("x"), "b": cty.NullVal(cty.String)}),
		cty.MapVal(map[string]cty.Value{"a": cty.ListVal([]cty.Value{cty.True})}),
		cty.MapValEmpty(cty.Bool),
		cty.TupleVal([]cty.Value{cty.NumberIntVal(1), cty.StringVal("x")}),
		cty.EmptyTupleVal,
		cty.ObjectVal(map[string]cty.Value{"a": cty.NumberIntVal(1), "b": cty.DynamicVal}),
		cty.EmptyObjectVal,
		cty.SetVal([]cty.Value{cty.NumberIntVal(1), cty.NumberIntVal(2)}),
		cty.SetVal([]cty.Value{cty.UnknownVal(cty.Number), cty.NumberIntVal(1)}),
		cty.SetValEmpty(cty.String),
		cty.UnknownVal(cty.List(cty.Number)),
		cty.UnknownVal(cty.List(cty.Number)).Refine().NotNull().CollectionLengthLowerBound(1).CollectionLengthUpperBound(2).NewValue(),
		cty.UnknownVal(cty.Map(cty.String)),
		cty.UnknownVal(cty.Tuple([]cty.Type{cty.Number, cty.String})),
		cty.NullVal(cty.List(cty.String)),
		cty.NullVal(cty.Map(cty.String)),
		cty.DynamicVal,
		cty.StringVal("a"),
	}
	c04KeyBase = []cty.Value{cty.NumberIntVal(0), cty.NumberIntVal(1), cty.NumberIntVal(5), cty.NumberIntVal(-1), cty.NumberFloatVal(0.5), cty.StringVal("a"), cty.StringVal("zz"),
		cty.UnknownVal(cty.Number), cty.UnknownVal(cty.String), cty.DynamicVal, cty.NullVal(cty.Number), cty.NullVal(cty.String), cty.True}
	c04EqBase = []cty.Value{cty.NumberIntVal(1), cty.NumberIntVal(2), cty.StringVal("a"), cty.True, cty.NullVal(cty.String), cty.NullVal(cty.DynamicPseudoType),
		cty.UnknownVal(cty.String), cty.UnknownVal(cty.Number).RefineNotNull(), cty.DynamicVal,
		cty.ListVal([]cty.Value{cty.NumberIntVal(1), cty.NumberIntVal(2)}),
		cty.ListVal([]cty.Value{cty.NumberIntVal(1), cty.UnknownVal(cty.Number)}),
		cty.ListVal([]cty.Value{cty.NumberIntVal(1)}),
		cty.ListVal([]cty.Value{cty.ListVal([]cty.Value{cty.NumberIntVal(1)})}),
		cty.TupleVal([]cty.Value{cty.NumberIntVal(1), cty.StringVal("a")}),
		cty.TupleVal([]cty.Value{cty.NumberIntVal(1), cty.NumberIntVal(2)}),
		cty.ObjectVal(map[string]cty.Value{"a": cty.NumberIntVal(1), "b": cty.StringVal("a")}),
		cty.ObjectVal(map[string]cty.Value{"a": cty.NumberIntVal(1), "b": cty.NullVal(cty.String)}),
		cty.MapVal(map[string]cty.Value{"a": cty.NumberIntVal(1), "b": cty.NumberIntVal(2)}),
		cty.SetVal([]cty.Value{cty.NumberIntVal(1), cty.NumberIntVal(2)}),
		cty.SetVal([]cty.Value{cty.ListVal([]cty.Value{cty.NumberIntVal(1)})}),
		cty.NullVal(cty.List(cty.Number)),
		cty.UnknownVal(cty.List(cty.Number)),
	}
	c04ObjBase = []cty.Value{
		cty.ObjectVal(map[string]cty.Value{"a": cty.NumberIntVal(1), "b": cty.StringVal("x")}),
		cty.ObjectVal(map[string]cty.Value{"a": cty.ListVal([]cty.Value{cty.True}), "b": cty.NullVal(cty.String)}),
		cty.ObjectVal(map[string]cty.Value{"a": cty.UnknownVal(cty.Number), "b": cty.DynamicVal}),
		cty.UnknownVal(cty.Object(map[string]cty.Type{"a": cty.Number, "b": cty.DynamicPseudoType})),
		cty.NullVal(cty.Object(map[string]cty.Type{"a": cty.Number})),
		cty.DynamicVal,
		cty.MapVal(map[string]cty.Value{"a": cty.NumberIntVal(1)}),
	}
	c04SetBase = []cty.Value{
		cty.SetVal([]cty.Value{cty.NumberIntVal(1), cty.NumberIntVal(2)}),
		cty.SetVal([]cty.Value{cty.ListVal([]cty.Value{cty.NumberIntVal(1)}), cty.ListVal([]cty.Value{cty.NumberIntVal(2)})}),
		cty.SetVal([]cty.Value{cty.UnknownVal(cty.Number), cty.NumberIntVal(1)}),
		cty.SetVal([]cty.Value{cty.TupleVal([]cty.Value{cty.NumberIntVal(1), cty.StringVal("a")})}),
		cty.SetVal([]cty.Value{cty.ObjectVal(map[string]cty.Value{"a": cty.NumberIntVal(1)})}),
		cty.SetVal([]cty.Value{cty.MapVal(map[string]cty.Value{"a": cty.NumberIntVal(1)})}),
		cty.SetValEmpty(cty.Number),
		cty.UnknownVal(cty.Set(cty.Number)),
		cty.NullVal(cty.Set(cty.Number)),
		cty.DynamicVal,
		cty.ListVal([]cty.Value{cty.NumberIntVal(1)}),
	}
	c04NeedleBase = []cty.Value{cty.NumberIntVal(1), cty.NumberIntVal(3), cty.UnknownVal(cty.Number), cty.NullVal(cty.Number), cty.DynamicVal, cty.StringVal("a"),
		cty.ListVal([]cty.Value{cty.NumberIntVal(1)}), cty.ListVal([]cty.Value{cty.NumberIntVal(3)}), cty.ListVal([]cty.Value{cty.UnknownVal(cty.Number)}),
		cty.TupleVal([]cty.Value{cty.NumberIntVal(1), cty.StringVal("a")}),
		cty.ObjectVal(map[string]cty.Value{"a": cty.NumberIntVal(1)}),
		cty.MapVal(map[string]cty.Value{"a": cty.NumberIntVal(1)}),
		cty.ListVal([]cty.Value{cty.ListVal([]cty.Value{cty.NumberIntVal(1)})}),
	}
)

// c04Exhaustive: the enumerated small scope of operation-method cases.
// It returns the marked values it built, for reuse by the other parts.
func c04Exhaustive(ctx *Ctx) []cty.Value {
	nums, bools := c04Each(c04NumBase), c04Each(c04BoolBase)
	colls, keys := c04Each(c04CollBase), c04Each(c04KeyBase)
	objs, sets, needles := c04Each(c04ObjBase), c04Each(c04SetBase), c04Each(c04NeedleBase)
	for _, name := range []string{"add", "sub", "mul", "div", "mod", "lt", "gt", "le", "ge"} {
		op := c04OpByName(name)
		for _, a := range nums {
			for _, b := range nums {
				c04CheckOp(ctx, op, []cty.Value{a, b}, "")
			}
		}
	}
	for _, name := range []string{"neg", "abs"} {
		for _, a := range nums {
			c04CheckOp(ctx, c04OpByName(name), []cty.Value{a}, "")
		}
	}
	for _, a := range bools {
		c04CheckOp(ctx, c04OpByName("not"), []cty.Value{a}, "")
		for _, b := range bools {
			c04CheckOp(ctx, c04OpByName("and"), []cty.Value{a, b}, "")
			c04CheckOp(ctx, c04OpByName("or"), []cty.Value{a, b}, "")
		}
	}
	for _, c := range colls {
		c04CheckOp(ctx, c04OpByName("length"), []cty.Value{c}, "")
		for _, k := range keys {
			c04CheckOp(ctx, c04OpByName("index"), []cty.Value{c, k}, "")
			c04CheckOp(ctx, c04OpByName("hasindex"), []cty.Value{c, k}, "")
		}
	}
	for _, o := range objs {
		for _, n := range []string{"a", "b", "zz"} {
			c04CheckOp(ctx, c04OpByName("getattr"), []cty.Value{o}, n)
		}
	}
	for _, s := range sets {
		c04CheckOp(ctx, c04OpByName("length"), []cty.Value{s}, "")
		for _, n := range needles {
			c04CheckOp(ctx, c04OpByName("haselement"), []cty.Value{s, n}, "")
		}
	}
	// Equals: every marked variant against every unmarked base value, against
	// every variant of its own base value, and against one variant of every other.
	var eqVars [][]cty.Value
	for _, b := range c04EqBase {
		eqVars = append(eqVars, c04Placements(b))
	}
	for i, vi := range eqVars {
		for _, a := range vi {
			for j, vj := range eqVars {
				var others []cty.Value
				switch {
				case i == j:
					others = vj
				default:
					others = []cty.Value{vj[0], vj[len(vj)-1]}
				}
				for _, b := range others {
					c04CheckOp(ctx, c04OpByName("equals"), []cty.Value{a, b}, "")
					c04CheckOp(ctx, c04OpByName("notequal"), []cty.Value{a, b}, "")
				}
			}
		}
	}
	var all []cty.Value
	for _, l := range [][]cty.Value{nums, bools, colls, keys, objs, sets, needles} {
		all = append(all, l...)
	}
	for _, l := range eqVars {
		all = append(all, l...)
	}
	return all
}

// ---- random operands of any depth -----------------------------------------------

var c04ValOpts = ValOpts{Unknown: true, Null: true, Marks: true, DynVal: true, Small: true}

// c04GenVal is genVal under recover: a constructor that panics while the
// generator builds a marked value is recorded, and a plain value returned instead.
func c04GenVal(ctx *Ctx, t cty.Type, depth int) (out cty.Value) {
	defer func() {
		if r := recover(); r != nil {
			c04GenPanics = append(c04GenPanics, [2]string{"genVal " + encTy(t), fmt.Sprint(r)})
			out = cty.DynamicVal
		}
	}()
	return genVal(ctx.R, t, depth, c04ValOpts)
}

func c04RandNum(ctx *Ctx) cty.Value {
	var v cty.Value
	switch ctx.R.Intn(12) {
	case 0:
		v = cty.DynamicVal
	case 1:
		v = cty.NullVal(cty.Number)
	case 2, 3:
		v = genUnknown(ctx.R, cty.Number)
	default:
		v = genNumber(ctx.R, c04ValOpts)
	}
	return c04RandomMarks(ctx, v)
}

func c04RandColl(ctx *Ctx) cty.Value {
	e := genTy(ctx.R, 1, TyOpts{})
	var t cty.Type
	switch ctx.R.Intn(5) {
	case 0:
		t = cty.List(e)
	case 1:
		t = cty.Map(e)
	case 2:
		t = cty.Set(e)
	default:
		t = genTy(ctx.R, 3, TyOpts{Dyn: true})
	}
	return c04RandomMarks(ctx, c04GenVal(ctx, t, 3))
}

func c04RandKey(ctx *Ctx, c cty.Value) cty.Value {
	t := c.Type()
	var k cty.Value
	switch {
	case ctx.R.Intn(12) == 0:
		k = c04GenVal(ctx, genTy(ctx.R, 1, TyOpts{}), 1)
	case ctx.R.Intn(12) == 0:
		k = cty.DynamicVal
	case t.IsMapType() || t.IsObjectType():
		k = cty.StringVal([]string{"a", "b", "k", "é", "zz", "", "nope"}[ctx.R.Intn(7)])
		if ctx.R.Intn(8) == 0 {
			k = genUnknown(ctx.R, cty.String)
		}
	default:
		k = cty.NumberIntVal(int64(ctx.R.Intn(5) - 1))
		if ctx.R.Intn(8) == 0 {
			k = genUnknown(ctx.R, cty.Number)
		}
	}
	return c04RandomMarks(ctx, k)
}

func c04RandArgs(ctx *Ctx, op *c04Op) ([]cty.Value, string) {
	switch op.name {
	case "equals", "notequal":
		t := genTy(ctx.R, 3, TyOpts{Dyn: true})
		a := c04RandomMarks(ctx, c04GenVal(ctx, t, 3))
		var b cty.Value
		switch ctx.R.Intn(5) {
		case 0:
			b = c04GenVal(ctx, genTy(ctx.R, 2, TyOpts{Dyn: true}), 2)
		case 1:
			u, _ := a.UnmarkDeep() // the same value, differently marked
			b = u
		default:
			b = c04GenVal(ctx, t, 3)
		}
		return []cty.Value{a, c04RandomMarks(ctx, b)}, ""
	case "neg", "abs":
		return []cty.Value{c04RandNum(ctx)}, ""
	case "not":
		return []cty.Value{c04RandomMarks(ctx, c04GenVal(ctx, cty.Bool, 1))}, ""
	case "and", "or":
		return []cty.Value{c04RandomMarks(ctx, c04GenVal(ctx, cty.Bool, 1)), c04RandomMarks(ctx, c04GenVal(ctx, cty.Bool, 1))}, ""
	case "index", "hasindex":
		c := c04RandColl(ctx)
		return []cty.Value{c, c04RandKey(ctx, c)}, ""
	case "length":
		return []cty.Value{c04RandColl(ctx)}, ""
	case "getattr":
		var t cty.Type
		if ctx.R.Intn(6) == 0 {
			t = genTy(ctx.R, 2, TyOpts{Dyn: true})
		} else {
			atys := map[string]cty.Type{}
			for i := 0; i < 1+ctx.R.Intn(3); i++ {
				atys[attrNames[ctx.R.Intn(len(attrNames))]] = genTy(ctx.R, 2, TyOpts{Dyn: true})
			}
			t = cty.Object(atys)
		}
		return []cty.Value{c04RandomMarks(ctx, c04GenVal(ctx, t, 3))}, attrNames[ctx.R.Intn(len(attrNames))]
	case "haselement":
		e := genTy(ctx.R, 2, TyOpts{})
		var s cty.Value
		if ctx.R.Intn(10) == 0 {
			s = c04GenVal(ctx, genTy(ctx.R, 2, TyOpts{Dyn: true}), 2)
		} else {
			s = c04GenVal(ctx, cty.Set(e), 3)
		}
		et := e
		if s.Type().IsSetType() {
			et = s.Type().ElementType()
		}
		if ctx.R.Intn(8) == 0 {
			et = genTy(ctx.R, 1, TyOpts{Dyn: true})
		}
		var n cty.Value
		if u, _ := s.UnmarkDeep(); ctx.R.Intn(3) == 0 && u.Type().IsSetType() && u.IsKnown() && !u.IsNull() && u.LengthInt() > 0 {
			// a member of the set, so that the answer is sometimes True
			for it := u.ElementIterator(); it.Next(); {
				_, n = it.Element()
				if ctx.R.Intn(2) == 0 {
					break
				}
			}
		} else {
			n = c04GenVal(ctx, et, 3)
		}
		return []cty.Value{c04RandomMarks(ctx, s), c04RandomMarks(ctx, n)}, ""
	default: // arithmetic and comparison
		return []cty.Value{c04RandNum(ctx), c04RandNum(ctx)}, ""
	}
}

// ---- the marks API against the model ----------------------------------------------

func c04PathWire(p cty.Path) string {
	var sb strings.Builder
	sb.WriteByte('(')
	for i, s := range p {
		if i > 0 {
			sb.WriteByte(' ')
		}
		switch s := s.(type) {
		case cty.GetAttrStep:
			sb.WriteString("(a " + encStr(s.Name) + ")")
		case cty.IndexStep:
			k := s.Key
			switch {
			case k.Type() == cty.Number && k.IsKnown() && !k.IsNull() && !k.IsMarked():
				i, acc := k.AsBigFloat().Int64()
				if acc != 0 || i < 0 {
					sb.WriteString("(e " + encVal(k) + ")")
				} else {
					fmt.Fprintf(&sb, "(i %d)", i)
				}
			case k.Type() == cty.String && k.IsKnown() && !k.IsNull() && !k.IsMarked():
				sb.WriteString("(k " + encStr(k.AsString()) + ")")
			default:
				sb.WriteString("(e " + encVal(k) + ")")
			}
		default:
			sb.WriteString("(bad)")
		}
	}
	sb.WriteByte(')')
	return sb.String()
}

func c04PvmWire(pvm []cty.PathValueMarks, sorted bool) string {
	w := make([]string, len(pvm))
	for i, e := range pvm {
		w[i] = "(" + c04PathWire(e.Path) + " " + c04MarksWire(c04MarkSet(e.Marks)) + ")"
	}
	if sorted {
		sort.Strings(w)
	}
	return "(" + strings.Join(w, " ") + ")"
}

// c04Paths lists the paths of the nodes of v that do not lie below a set.
func c04Paths(v cty.Value, path cty.Path, out *[]cty.Path) {
	*out = append(*out, path.Copy())
	u, _ := v.Unmark()
	if u.IsNull() || !u.IsKnown() || u.Type().IsSetType() {
		return
	}
	ty := u.Type()
	switch {
	case ty.IsObjectType():
		for _, name := range sortedKeys(ty.AttributeTypes()) {
			c04Paths(u.GetAttr(name), append(path, cty.GetAttrStep{Name: name}), out)
		}
	case u.CanIterateElements():
		for it := u.ElementIterator(); it.Next(); {
			kv, ev := it.Element()
			c04Paths(ev, append(path, cty.IndexStep{Key: kv}), out)
		}
	}
}

func c04API(ctx *Ctx, v, other cty.Value) {
	w := encVal(v)
	hasMarks := len(c04DeepSet(v)) > 0
	ctx.Eval("api "+w, hasMarks)
	ctx.Tag("api")
	failAPI := func(sig, what, outcome string) {
		ctx.Fail(Failure{Site: "marks-api", Sig: sig, What: what, Input: w, GoLit: c04GoLit([]cty.Value{v}, ""), Outcome: outcome})
	}
	// Mark / HasMark
	for _, m := range []string{"m1", "zz"} {
		mv := v.Mark(m)
		ctx.Add("mk.mark", encVal(mv), w, encStr(m))
		ctx.Add("mk.hasmark", encBool(v.HasMark(m)), w, encStr(m))
		if !mv.HasMark(m) {
			failAPI("mark-hasmark", "v.Mark(m).HasMark(m) is false", encVal(mv))
		}
		if !v.IsMarked() {
			u, ms := mv.Unmark()
			if encVal(u) != w || len(ms) != 1 || !mv.HasMark(m) {
				failAPI("mark-unmark", "Unmark(Mark(v, m)) is not (v, {m}) for an unmarked v", encVal(u)+" "+c04MarksWire(c04MarkSet(ms)))
			}
		}
	}
	// WithMarks, variadic
	for _, sets := range [][][]string{{}, {{}}, {{"m1"}}, {{"m2"}, {"m1", "m3"}}, {{}, {}}, {{"zz", "m2"}, {}}} {
		vms := make([]cty.ValueMarks, len(sets))
		ws := make([]string, len(sets))
		for i, s := range sets {
			vms[i] = c04VM(s...)
			ws[i] = c04MarksWire(s)
		}
		ctx.Add("mk.withmarks", encVal(v.WithMarks(vms...)), w, "("+strings.Join(ws, " ")+")")
	}
	// Unmark, UnmarkDeep, observers
	u1, m1 := v.Unmark()
	ctx.Add("mk.unmark", encVal(u1)+" "+c04MarksWire(c04MarkSet(m1)), w)
	ud, md := v.UnmarkDeep()
	ctx.Add("mk.unmarkdeep", encVal(ud)+" "+c04MarksWire(c04MarkSet(md)), w)
	ctx.Add("mk.unmarkdeepr", encVal(ud)+" "+c04MarksWire(c04MarkSet(md)), w)
	ctx.Add("mk.obs", encBool(v.IsMarked())+" "+encBool(v.ContainsMarked())+" "+c04MarksWire(c04MarkSet(v.Marks())), w)
	if got, want := c04MarkSet(md), c04Keys(c04DeepSet(v)); strings.Join(got, ",") != strings.Join(want, ",") {
		failAPI("unmarkdeep-marks", "UnmarkDeep does not return exactly the marks present at any depth", fmt.Sprint(got, " vs ", want))
	}
	if ud.ContainsMarked() || len(c04DeepSet(ud)) > 0 {
		failAPI("unmarkdeep-clean", "the value returned by UnmarkDeep still contains a mark", encVal(ud))
	}
	if v.ContainsMarked() != hasMarks {
		failAPI("containsmarked", "ContainsMarked disagrees with an independent walk", encBool(v.ContainsMarked()))
	}
	// UnmarkDeepWithPaths, and MarkWithPaths back
	up, pvm := v.UnmarkDeepWithPaths()
	ctx.Add("mk.unmarkpaths", encVal(up)+" "+c04PvmWire(pvm, true), w)
	if encVal(up) != encVal(ud) {
		failAPI("unmarkpaths-value", "UnmarkDeepWithPaths and UnmarkDeep return different values", encVal(up))
	}
	var back cty.Value
	pvmBefore := c04PvmWire(pvm, false)
	p, _ := try(func() { back = up.MarkWithPaths(pvm) })
	if p {
		failAPI("paths-roundtrip-panic", "MarkWithPaths(UnmarkDeepWithPaths(v)) panics", "panic")
	} else {
		// the records are the caller's: applying them must not consume them, and applying them again
		// (to the same value, or to another value of the same shape) must mark the same positions
		if after := c04PvmWire(pvm, false); after != pvmBefore {
			failAPI("markpaths-consumes-records", "MarkWithPaths changed the caller's []PathValueMarks: a second application loses marks", after+" (was "+pvmBefore+")")
		}
		var back2 cty.Value
		if p2, _ := try(func() { back2 = up.MarkWithPaths(pvm) }); p2 || encVal(back2) != encVal(back) {
			failAPI("paths-roundtrip-twice", "a second MarkWithPaths with the same records does not give the same marked value (marks lost)", encVal(back2))
		}
		ctx.Add("mk.markpaths", "ok "+encVal(back), encVal(up), pvmBefore)
		if encVal(back) != w {
			same := false
			try(func() { same = back.RawEquals(v) })
			_, pvm2 := back.UnmarkDeepWithPaths()
			if !same || c04PvmWire(pvm2, true) != c04PvmWire(pvm, true) {
				failAPI("paths-roundtrip", "MarkWithPaths(UnmarkDeepWithPaths(v)) does not restore v", encVal(back))
			} else {
				ctx.Tag("repr-differs:paths-roundtrip")
			}
		}
	}
	// MarkWithPaths with chosen records (first matching record wins; duplicates; a miss)
	var paths []cty.Path
	c04Paths(v, nil, &paths)
	var recs []cty.PathValueMarks
	for i := 0; i < 1+ctx.R.Intn(3); i++ {
		pth := paths[ctx.R.Intn(len(paths))]
		recs = append(recs, cty.PathValueMarks{Path: pth, Marks: c04VM(c04Menu[1+ctx.R.Intn(2)]...)})
	}
	if ctx.R.Intn(3) == 0 {
		recs = append(recs, cty.PathValueMarks{Path: append(paths[ctx.R.Intn(len(paths))].Copy(), cty.IndexStep{Key: cty.NumberIntVal(0)}), Marks: c04VM("m3")})
	}
	var mp cty.Value
	if p, _ := try(func() { mp = v.MarkWithPaths(recs) }); p {
		ctx.Add("mk.markpaths", "panic", w, c04PvmWire(recs, false))
	} else {
		ctx.Add("mk.markpaths", "ok "+encVal(mp), w, c04PvmWire(recs, false))
	}
	// WithSameMarks / HasSameMarks
	for _, srcs := range [][]cty.Value{{}, {v}, {other}, {other, v.Mark("zz")}, {ud}} {
		ctx.Add("mk.withsamemarks", encVal(v.WithSameMarks(srcs...)), w, c04Vals(srcs))
	}
	ws := v.WithSameMarks(other)
	wantTop := c04TopSet(v)
	for m := range c04TopSet(other) {
		wantTop[m] = struct{}{}
	}
	if strings.Join(c04MarkSet(ws.Marks()), ",") != strings.Join(c04Keys(wantTop), ",") {
		failAPI("withsamemarks", "WithSameMarks does not give exactly the receiver's and the source's top-level marks", encVal(ws))
	}
	ctx.Add("mk.hassamemarks", encBool(v.HasSameMarks(other)), w, encVal(other))
	ctx.Add("mk.hassamemarks", encBool(v.HasSameMarks(ws)), w, encVal(ws))
}

// ---- UnmarkDeep rebuilds sets ------------------------------------------------------

// Two strings whose set hashes (crc32 of their hash bytes) collide: one bucket, two members.
var c04Tied = [2]string{"10988928-965", "16ff0cb-114"}

// c04Rebuild: sets that hold hash-tied members in an order other than their
// iteration order.  UnmarkDeep (like every transform) stores them back in
// iteration order: the payload differs from the model's plain strip, the value is
// RawEquals-equal.  Compared with the rebuild-faithful model (mk.unmarkdeepr).
func c04Rebuild(ctx *Ctx) {
	a, b := cty.StringVal(c04Tied[0]), cty.StringVal(c04Tied[1])
	tied := false
	try(func() { tied = cty.VerifHash(a) == cty.VerifHash(b) })
	ctx.Probe("crc32-tied-strings", tied, "the two corpus strings no longer share a set bucket")
	if !tied {
		return
	}
	c := cty.StringVal("z")
	sets := []cty.Value{
		cty.SetVal([]cty.Value{a, b}), cty.SetVal([]cty.Value{b, a}),
		cty.SetVal([]cty.Value{b, c, a}), cty.SetVal([]cty.Value{c, b, cty.UnknownVal(cty.String), a, cty.NullVal(cty.String)}),
	}
	var vals []cty.Value
	for _, s := range sets {
		vals = append(vals, s, s.Mark("m1"),
			cty.ListVal([]cty.Value{s.Mark("m2"), s}),
			cty.ObjectVal(map[string]cty.Value{"a": s, "b": cty.StringVal("x").Mark("m3")}).Mark("m1"),
			cty.SetVal([]cty.Value{cty.ListVal([]cty.Value{s})}),
			cty.TupleVal([]cty.Value{cty.MapVal(map[string]cty.Value{"k": s.Mark("m2")})}))
	}
	for _, v := range vals {
		w := encVal(v)
		ctx.Eval("rebuild "+w, len(c04DeepSet(v)) > 0)
		ctx.Tag("rebuild")
		ud, md := v.UnmarkDeep()
		ctx.Add("mk.unmarkdeepr", encVal(ud)+" "+c04MarksWire(c04MarkSet(md)), w)
		again, _ := ud.UnmarkDeep()
		if encVal(again) != encVal(ud) {
			ctx.Fail(Failure{Site: "marks-api", Sig: "unmarkdeep-not-idempotent", What: "UnmarkDeep of an UnmarkDeep result changes the payload again", Input: w, GoLit: c04GoLit([]cty.Value{v}, ""), Outcome: encVal(again)})
		}
		// what the property promises: the same value (RawEquals), whatever the storage order
		plain := c04PlainStrip(v)
		same := false
		try(func() { same = ud.RawEquals(plain) })
		if !same {
			ctx.Fail(Failure{Site: "marks-api", Sig: "unmarkdeep-changes-value", What: "UnmarkDeep returns a value that is not RawEquals to the value with its markers peeled off", Input: w, GoLit: c04GoLit([]cty.Value{v}, ""), Outcome: encVal(ud)})
		}
		if encVal(plain) != encVal(ud) {
			ctx.Tag("rebuild:storage-order-changed")
		}
		// paired operation runs on these values
		for _, n := range []cty.Value{a, b, c} {
			c04CheckOp(ctx, c04OpByName("equals"), []cty.Value{v, v}, "")
			if v.Type().IsSetType() {
				c04CheckOp(ctx, c04OpByName("haselement"), []cty.Value{v, n.Mark("m3")}, "")
				c04CheckOp(ctx, c04OpByName("length"), []cty.Value{v}, "")
			}
		}
	}
}

// c04PlainStrip peels the markers off without rebuilding anything that holds no marker
// (constructors are used only above a marker).
func c04PlainStrip(v cty.Value) cty.Value {
	u, _ := v.Unmark()
	if !u.ContainsMarked() {
		return u
	}
	ty := u.Type()
	switch {
	case ty.IsListType() || ty.IsTupleType():
		var es []cty.Value
		for it := u.ElementIterator(); it.Next(); {
			_, ev := it.Element()
			es = append(es, c04PlainStrip(ev))
		}
		if ty.IsListType() {
			return cty.ListVal(es)
		}
		return cty.TupleVal(es)
	case ty.IsMapType() || ty.IsObjectType():
		es := map[string]cty.Value{}
		for it := u.ElementIterator(); it.Next(); {
			kv, ev := it.Element()
			es[kv.AsString()] = c04PlainStrip(ev)
		}
		if ty.IsMapType() {
			return cty.MapVal(es)
		}
		return cty.ObjectVal(es)
	}
	return u
}

// ---- constructors -----------------------------------------------------------------

func c04Ctors(ctx *Ctx, elems []cty.Value) {
	if len(elems) == 0 {
		return
	}
	w := c04Vals(elems)
	lit := c04GoLit(elems, "")
	marks := c04DeepSet(elems...)
	ctx.Eval("ctor "+w, len(marks) > 0)
	ctx.Tag("ctor")
	clean := make([]cty.Value, len(elems))
	hashes := make([]string, len(elems))
	for i, e := range elems {
		clean[i], _ = e.UnmarkDeep()
		hashes[i] = c04Hash(e)
	}
	// SetVal
	outS, set, pS := opOut(func() cty.Value { return cty.SetVal(elems) })
	ctx.Add("mk.setval", outS, w, "("+strings.Join(hashes, " ")+")")
	outSC, setC, pSC := opOut(func() cty.Value { return cty.SetVal(clean) })
	failC := func(sig, what, outcome string) {
		ctx.Fail(Failure{Site: "constructors", Sig: sig, What: what, Input: w, GoLit: lit, Outcome: outcome})
	}
	switch {
	case pS != pSC:
		failC("setval:outcome", "SetVal of marked and of unmarked elements differ in whether they panic", outS+" ; "+outSC)
	case !pS:
		if got := strings.Join(c04MarkSet(set.Marks()), ","); got != strings.Join(c04Keys(marks), ",") {
			failC("setval:hoist", "the marks of SetVal's result are not exactly the marks found at any depth in the elements", outS)
		}
		u, _ := set.Unmark()
		if len(c04DeepSet(u)) > 0 {
			failC("setval:member-marked", "a member of the set returned by SetVal contains a mark", outS)
		}
		if encVal(u) != encVal(setC) {
			failC("setval:non-interference", "SetVal of marked elements, unmarked, is not SetVal of the unmarked elements", outS+" ; "+outSC)
		}
	}
	// ListVal / MapVal: no mark handling — members keep their marks, the collection has none
	outL, list, pL := opOut(func() cty.Value { return cty.ListVal(elems) })
	ctx.Add("mk.listval", outL, w)
	if !pL {
		if list.IsMarked() {
			failC("listval:top", "ListVal's result is itself marked", outL)
		}
		i := 0
		for it := list.ElementIterator(); it.Next(); i++ {
			_, ev := it.Element()
			if cty.VerifDump(ev) != cty.VerifDump(elems[i]) {
				failC("listval:member", "a member read back from ListVal's result is not the element given, marks included", outL)
			}
		}
	}
	names := []string{"a", "b", "c", "d", "e"}
	m := map[string]cty.Value{}
	var ks []string
	for i, e := range elems {
		if i < len(names) {
			m[names[i]] = e
			ks = append(ks, encStr(names[i]))
		}
	}
	if len(m) == len(elems) {
		outM, mv, pM := opOut(func() cty.Value { return cty.MapVal(m) })
		ctx.Add("mk.mapval", outM, "("+strings.Join(ks, " ")+")", w)
		if !pM && mv.IsMarked() {
			failC("mapval:top", "MapVal's result is itself marked", outM)
		}
	}
}

func runC04(ctx *Ctx) {
	pool := c04Exhaustive(ctx)
	ctx.res.Exhaustive = true
	ctx.res.Scope = "operation methods: per-family operand menus x every assignment of {none,{m1},{m2,m3}} to the nodes of each operand (<= 3 nodes; single-node and all-node placements beyond) — complete in both tiers; " +
		"marks API and constructors on every value of that pool; convert: the same pool x a menu of target types; Function.Call: 0-2 parameters +/- variadic x AllowMarked/AllowUnknown/type x an 8-value argument menu x 10 callback behaviours " +
		"(thorough tier: the whole product; quick tier: every 7th combination, offset by the seed)"
	// marks API and constructors on the whole enumerated pool
	for i, v := range pool {
		c04API(ctx, v, pool[(i*7+3)%len(pool)])
	}
	for i := range pool {
		if pool[i].Type() == cty.Number || pool[i].Type() == cty.DynamicPseudoType {
			c04Ctors(ctx, []cty.Value{pool[i]})
			c04Ctors(ctx, []cty.Value{pool[i], pool[(i*5+1)%len(pool)]})
			c04Ctors(ctx, []cty.Value{pool[(i*3+2)%len(pool)], pool[i], pool[(i*5+1)%len(pool)]})
		}
	}
	// generated operands, any depth
	n := ctx.N(250, 12000)
	for i := range c04Ops {
		op := &c04Ops[i]
		for j := 0; j < n; j++ {
			args, attr := c04RandArgs(ctx, op)
			c04CheckOp(ctx, op, args, attr)
		}
	}
	for i := 0; i < ctx.N(1500, 40000); i++ {
		t := genTy(ctx.R, 3, TyOpts{Dyn: true})
		v := c04RandomMarks(ctx, c04GenVal(ctx, t, 3))
		o := c04RandomMarks(ctx, c04GenVal(ctx, genTy(ctx.R, 1, TyOpts{}), 1))
		c04API(ctx, v, o)
	}
	for i := 0; i < ctx.N(1500, 40000); i++ {
		ety := genTy(ctx.R, 2, TyOpts{})
		k := 1 + ctx.R.Intn(4)
		elems := make([]cty.Value, k)
		for j := range elems {
			if ctx.R.Intn(5) == 0 && j > 0 {
				elems[j], _ = elems[ctx.R.Intn(j)].UnmarkDeep() // a duplicate, differently marked
			} else {
				elems[j] = c04GenVal(ctx, ety, 2)
			}
			elems[j] = c04RandomMarks(ctx, elems[j])
		}
		if ctx.R.Intn(12) == 0 {
			elems[ctx.R.Intn(k)] = c04GenVal(ctx, genTy(ctx.R, 1, TyOpts{}), 1) // maybe inconsistent types
		}
		c04Ctors(ctx, elems)
	}
	c04Rebuild(ctx)
	c04Calls(ctx)
	c04Convert(ctx)
	c04Stdlib(ctx)
	for _, g := range c04GenPanics {
		ctx.Fail(Failure{Site: "constructors", Sig: "rebuild-with-marks-panics", What: "rebuilding a value with marks on some of its nodes (ListVal/SetVal/MapVal/TupleVal/ObjectVal + WithMarks) panicked: " + g[1],
			Input: g[0], GoLit: g[0], Outcome: "panic"})
	}
}
