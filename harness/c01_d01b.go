package main

import "github.com/zclconf/go-cty/cty"

// Regression cases for the theorems of slice d01b (Props/C01.lean): each must PASS on
// the unchanged tree.
//   - sound_hasElement_members_partial / sound_equals_set_partial: {1, 2} stored as three
//     members, two of them unknown (stand-ins that coalesce in the concrete set)
//   - sound_equals_object_whole_partial / sound_equals_map_whole_partial: an operand of
//     object / map type replaced as a whole by an unknown (maps: with length bounds)
//   - absent_bound_admits_infinity: an infinity against a refined unknown number without
//     a bound on that side (seeded change C01-unbounded-number-range-end-reported-exclusive)
func c01D01bCorpus() []c01Case {
	one, two, five := cty.NumberIntVal(1), cty.NumberIntVal(2), cty.NumberIntVal(5)
	set12 := cty.SetVal([]cty.Value{one, two})
	ge1 := cty.UnknownVal(cty.Number).Refine().NotNull().NumberRangeLowerBound(one, true).NewValue()
	set3 := cty.SetVal([]cty.Value{ge1, two, cty.UnknownVal(cty.Number)})
	obj := cty.ObjectVal(map[string]cty.Value{"a": one})
	m1 := cty.MapVal(map[string]cty.Value{"k": five})
	m2 := cty.MapVal(map[string]cty.Value{"j": five, "k": five})
	uMap23 := cty.UnknownVal(cty.Map(cty.Number)).Refine().NotNull().CollectionLengthLowerBound(2).CollectionLengthUpperBound(3).NewValue()
	le5 := cty.UnknownVal(cty.Number).Refine().NumberRangeUpperBound(five, true).NewValue()
	gt0 := cty.UnknownVal(cty.Number).Refine().NotNull().NumberRangeLowerBound(cty.Zero, false).NewValue()
	return []c01Case{
		{"haselement", []cty.Value{set12, two}, []cty.Value{set3, two}},
		{"haselement", []cty.Value{set12, one}, []cty.Value{set3, one}},
		{"haselement", []cty.Value{set12, five}, []cty.Value{set3, five}},
		{"equals", []cty.Value{set12, set12}, []cty.Value{set3, set12}},
		{"equals", []cty.Value{set12, set12}, []cty.Value{set12, set3}},
		{"length", []cty.Value{set12}, []cty.Value{set3}},
		{"equals", []cty.Value{obj, obj}, []cty.Value{obj, cty.UnknownVal(obj.Type()).RefineNotNull()}},
		{"equals", []cty.Value{obj, obj}, []cty.Value{cty.UnknownVal(obj.Type()), cty.UnknownVal(obj.Type())}},
		{"equals", []cty.Value{m1, m2}, []cty.Value{m1, uMap23}},
		{"equals", []cty.Value{m2, m2}, []cty.Value{uMap23, m2}},
		{"equals", []cty.Value{cty.NegativeInfinity, cty.NegativeInfinity}, []cty.Value{cty.NegativeInfinity, le5}},
		{"equals", []cty.Value{cty.PositiveInfinity, cty.PositiveInfinity}, []cty.Value{gt0, cty.PositiveInfinity}},
		{"notequal", []cty.Value{cty.PositiveInfinity, cty.PositiveInfinity}, []cty.Value{cty.PositiveInfinity, cty.UnknownVal(cty.Number).RefineNotNull()}},
	}
}

// c01MoreStored: the weakened set stores more members than the concrete set it stands for
func c01MoreStored(o, w cty.Value) bool {
	ou, _ := o.Unmark()
	wu, _ := w.Unmark()
	if !ou.IsKnown() || !wu.IsKnown() || ou.IsNull() || wu.IsNull() || !ou.Type().IsSetType() || !wu.Type().IsSetType() {
		return false
	}
	return wu.LengthInt() > ou.LengthInt()
}
