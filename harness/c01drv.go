package main

import (
	"bufio"
	"flag"
	"fmt"
	"os"
	"os/exec"
	"strings"
)

// drvBatch sends lines (without ids) to the compiled Lean driver and returns
// its answers in order.  Used to evaluate property predicates that are Lean
// functions (`judge.*`) on the implementation's own outputs.
func drvBatch(lines []string) ([]string, error) {
	if len(lines) == 0 {
		return nil, nil
	}
	drv := ""
	if f := flag.Lookup("drv"); f != nil {
		drv = f.Value.String()
	}
	if drv == "" {
		return nil, fmt.Errorf("no -drv given")
	}
	var sb strings.Builder
	for i, l := range lines {
		fmt.Fprintf(&sb, "%d %s\n", i, l)
	}
	cmd := exec.Command(drv)
	cmd.Stdin = strings.NewReader(sb.String())
	cmd.Stderr = os.Stderr
	po, err := cmd.StdoutPipe()
	if err != nil {
		return nil, err
	}
	if err := cmd.Start(); err != nil {
		return nil, err
	}
	out := make([]string, 0, len(lines))
	sc := bufio.NewScanner(po)
	sc.Buffer(make([]byte, 1<<20), 1<<28)
	for sc.Scan() {
		line := sc.Text()
		want := fmt.Sprintf("%d ", len(out))
		if !strings.HasPrefix(line, want) {
			return nil, fmt.Errorf("driver line %d out of sync: %q", len(out), line)
		}
		out = append(out, line[len(want):])
	}
	if err := cmd.Wait(); err != nil {
		return nil, fmt.Errorf("driver exit: %v", err)
	}
	if len(out) != len(lines) {
		return nil, fmt.Errorf("driver answered %d of %d lines", len(out), len(lines))
	}
	return out, nil
}
