package main

// C18 — Go-value bridging (package cty/gocty) is exact or refuses.
//
// (a) exhaustive: every integer width/sign and both float widths x every
//     boundary number (+-1, +-0.5, huge, infinite) decoded with the real
//     gocty.FromCtyValue: correspondence with the Lean model (gocty.fromnum)
//     and the predicate "ok iff representable, then equal".
// (b) random Go values of a fixed family of Go types: ImpliedType, ToCtyValue,
//     FromCtyValue round trip, as correspondence cases and judged by the
//     property (nil pointers/slices/maps <-> null, everything else exact).
// (c) random cty values (unknown, null, marked, wrong shapes) x every target
//     type: never a panic for unmarked values, error where the property
//     demands one, consistent with the model.

import (
	"fmt"
	"math"
	"math/big"
	"math/rand"
	"reflect"
	"sort"
	"strings"

	"github.com/zclconf/go-cty/cty"
	"github.com/zclconf/go-cty/cty/gocty"
)

// ---- the fixed family of Go types ------------------------------------------

type c18S1 struct {
	A int    `cty:"a"`
	B string `cty:"b"`
}

type c18S2 struct {
	Name  string             `cty:"name"`
	Inner c18S1              `cty:"inner"`
	Ptr   *c18S1             `cty:"ptr"`
	L     []c18S1            `cty:"l"`
	M     map[string]float64 `cty:"m"`
	U     int16              // not bridged
}

type c18S3 struct {
	V  cty.Value  `cty:"v"`
	N  *int       `cty:"n"`
	BI big.Int    `cty:"bi"`
	BF *big.Float `cty:"bf"`
	PP **int      `cty:"pp"`
}

type c18S4 struct {
	Z uint8      `cty:"z"`
	Y *bool      `cty:"y"`
	X []string   `cty:"x"`
	W [2]float32 `cty:"w"`
}

// pointer-bearing element types: every entry of a decoded container must get its own pointee
type c18S5 struct {
	N *int    `cty:"n"`
	S *string `cty:"s"`
}

type c18S6 struct {
	A *int              `cty:"a"`
	B *int              `cty:"b"`
	L []*string         `cty:"l"`
	M map[string]*int16 `cty:"m"`
}

// mis-tagged structs: structTagIndices keeps the later of two fields with one tag; a tag that
// is not NFC never matches the (normalised) attribute name.  What the code does is modelled;
// the round trip is not demanded of them (excluded from the theorem by rtSide).
type c18Dup struct {
	A int    `cty:"a"`
	B string `cty:"a"`
	C bool   `cty:"c"`
}

type c18DupSame struct {
	A int `cty:"k"`
	B int `cty:"k"`
}

type c18NonNFCTag struct {
	A int  `cty:"e\u0301"`
	B int  `cty:"b"`
	P *int `cty:"A\u030a"`
}

type c18S8 struct {
	L []cty.Value          `cty:"l"`
	M map[string]cty.Value `cty:"m"`
	N int                  `cty:"n"`
}

var (
	c18BigIntT   = reflect.TypeOf(big.Int{})
	c18BigFloatT = reflect.TypeOf(big.Float{})
	c18ValueT    = reflect.TypeOf(cty.Value{})
)

type c18Fam struct {
	rt        reflect.Type
	roundtrip bool // take part in the round-trip experiment
	mistagged bool // a struct with duplicate or non-NFC tags: correspondence only, the round trip is not judged
}

func c18T(v interface{}) reflect.Type { return reflect.TypeOf(v).Elem() }

var c18Family = []c18Fam{
	{c18T(new(int8)), true, false}, {c18T(new(int16)), true, false}, {c18T(new(int32)), true, false}, {c18T(new(int64)), true, false}, {c18T(new(int)), true, false},
	{c18T(new(uint8)), true, false}, {c18T(new(uint16)), true, false}, {c18T(new(uint32)), true, false}, {c18T(new(uint64)), true, false}, {c18T(new(uint)), true, false},
	{c18T(new(float32)), true, false}, {c18T(new(float64)), true, false}, {c18T(new(string)), true, false}, {c18T(new(bool)), true, false},
	{c18T(new([]string)), true, false}, {c18T(new([]int16)), true, false}, {c18T(new([3]int8)), true, false}, {c18T(new([2]*string)), true, false},
	{c18T(new(map[string]int)), true, false}, {c18T(new(map[string][]bool)), true, false},
	{c18T(new(*int)), true, false}, {c18T(new(**int)), true, false}, {c18T(new(*string)), true, false}, {c18T(new(*[]string)), true, false},
	{c18T(new(c18S1)), true, false}, {c18T(new(c18S2)), true, false}, {c18T(new(c18S3)), true, false}, {c18T(new(c18S4)), true, false},
	{c18T(new(*c18S1)), true, false}, {c18T(new(map[string]c18S1)), true, false},
	{c18BigIntT, true, false}, {c18BigFloatT, true, false}, {c18T(new(*big.Int)), true, false}, {c18ValueT, true, false},
	// containers whose element type is or contains a pointer / slice: entries must not alias one another
	{c18T(new(map[string]*int)), true, false}, {c18T(new(map[string]**int)), true, false}, {c18T(new(map[string]c18S5)), true, false}, {c18T(new(map[string]*c18S1)), true, false},
	{c18T(new(map[string][]int)), true, false}, {c18T(new(map[string]map[string]*string)), true, false},
	{c18T(new([]*int)), true, false}, {c18T(new([]**int8)), true, false}, {c18T(new([3]*int16)), true, false}, {c18T(new([]c18S5)), true, false}, {c18T(new([2]c18S5)), true, false},
	{c18T(new(c18S6)), true, false}, {c18T(new([]*c18S6)), true, false}, {c18T(new(map[string]*big.Int)), true, false}, {c18T(new([]*big.Float)), true, false},
	{c18T(new(c18Emb)), true, false}, {c18T(new([]c18Emb)), true, false}, // embedded (anonymous) struct field carrying a tag
	// containers of embedded dynamic values: members of one type round-trip, members of different types must be refused
	{c18T(new([]cty.Value)), true, false}, {c18T(new(map[string]cty.Value)), true, false}, {c18T(new([2]cty.Value)), true, false}, {c18T(new([]*cty.Value)), true, false},
	{c18T(new(c18S8)), true, false},
	{c18T(new(c18Dup)), true, true}, {c18T(new(c18DupSame)), true, true}, {c18T(new(c18NonNFCTag)), true, true},
	{c18T(new([]c18Dup)), true, true}, {c18T(new(map[string]*c18NonNFCTag)), true, true},
}

var c18IntTypes = c18Family[:10]

// Go types only ImpliedType (and the bridge type) is asked about: the error cases
// (arrays, big numbers, structs without tags, at any depth) and a few more shapes.
type c18InnerNoTag struct {
	I c18NoTag `cty:"i"`
}

type c18DeepArr struct {
	A int                  `cty:"a"`
	M map[string][]*[2]int `cty:"m"`
}

var c18ImpliedOnly = []reflect.Type{
	c18T(new(c18TaggedArr)), c18T(new([]big.Int)), c18T(new(map[string][2]int)), c18T(new(c18NoTag)), c18T(new(*c18NoTag)), c18T(new([]c18NoTag)),
	c18T(new(struct{})), c18T(new(map[string]*big.Float)), c18T(new([0]int)), c18T(new(c18InnerNoTag)), c18T(new(c18DeepArr)), c18T(new(***c18S2)),
	c18T(new(map[string]map[string][]c18S3)), c18T(new([][][]uint8)), c18T(new(*[]*map[string]*bool)), c18T(new([2][3]big.Int)), c18T(new(map[string]cty.Value)),
	c18T(new([]*cty.Value)), c18T(new(*cty.Value)),
}

// ---- wire form of Go types and values (see lean/Driver/HGocty.lean) --------

func encGoTy(rt reflect.Type) string {
	switch rt {
	case c18BigIntT:
		return "bigint"
	case c18BigFloatT:
		return "bigfloat"
	case c18ValueT:
		return "cval"
	}
	switch rt.Kind() {
	case reflect.Int8:
		return "i8"
	case reflect.Int16:
		return "i16"
	case reflect.Int32:
		return "i32"
	case reflect.Int64:
		return "i64"
	case reflect.Int:
		return "int"
	case reflect.Uint8:
		return "u8"
	case reflect.Uint16:
		return "u16"
	case reflect.Uint32:
		return "u32"
	case reflect.Uint64:
		return "u64"
	case reflect.Uint:
		return "uint"
	case reflect.Float32:
		return "f32"
	case reflect.Float64:
		return "f64"
	case reflect.String:
		return "str"
	case reflect.Bool:
		return "bool"
	case reflect.Slice:
		return "(sl " + encGoTy(rt.Elem()) + ")"
	case reflect.Array:
		return fmt.Sprintf("(arr %d %s)", rt.Len(), encGoTy(rt.Elem()))
	case reflect.Map:
		if rt.Key().Kind() != reflect.String {
			panic("encGoTy: map key")
		}
		return "(map " + encGoTy(rt.Elem()) + ")"
	case reflect.Ptr:
		return "(ptr " + encGoTy(rt.Elem()) + ")"
	case reflect.Struct:
		var sb strings.Builder
		sb.WriteString("(st")
		for i := 0; i < rt.NumField(); i++ {
			f := rt.Field(i)
			fmt.Fprintf(&sb, " (%s %s)", encStr(f.Tag.Get("cty")), encGoTy(f.Type))
		}
		sb.WriteByte(')')
		return sb.String()
	}
	panic("encGoTy: unsupported " + rt.String())
}

func encGoFloat(f float64) string {
	if math.IsNaN(f) {
		return "nan"
	}
	return "(f " + cty.VerifNumWire(new(big.Float).SetFloat64(f)) + ")"
}

func encGoVal(v reflect.Value) string {
	rt := v.Type()
	switch rt {
	case c18BigIntT:
		bi := v.Interface().(big.Int)
		return "(bi " + bi.String() + ")"
	case c18BigFloatT:
		bf := v.Interface().(big.Float)
		return "(bf " + cty.VerifNumWire(&bf) + ")"
	case c18ValueT:
		cv := v.Interface().(cty.Value)
		if cv == cty.NilVal {
			return "cvnil"
		}
		return "(cv " + encVal(cv) + ")"
	}
	switch rt.Kind() {
	case reflect.Int8, reflect.Int16, reflect.Int32, reflect.Int64, reflect.Int:
		return fmt.Sprintf("(i %d)", v.Int())
	case reflect.Uint8, reflect.Uint16, reflect.Uint32, reflect.Uint64, reflect.Uint:
		return fmt.Sprintf("(i %d)", v.Uint())
	case reflect.Float32, reflect.Float64:
		return encGoFloat(v.Float())
	case reflect.String:
		return "(s " + encStr(v.String()) + ")"
	case reflect.Bool:
		return "(b " + encBool(v.Bool()) + ")"
	case reflect.Slice:
		if v.IsNil() {
			return "nilsl"
		}
		var sb strings.Builder
		sb.WriteString("(sl")
		for i := 0; i < v.Len(); i++ {
			sb.WriteByte(' ')
			sb.WriteString(encGoVal(v.Index(i)))
		}
		sb.WriteByte(')')
		return sb.String()
	case reflect.Array:
		var sb strings.Builder
		sb.WriteString("(arr")
		for i := 0; i < v.Len(); i++ {
			sb.WriteByte(' ')
			sb.WriteString(encGoVal(v.Index(i)))
		}
		sb.WriteByte(')')
		return sb.String()
	case reflect.Map:
		if v.IsNil() {
			return "nilmap"
		}
		keys := make([]string, 0, v.Len())
		for _, k := range v.MapKeys() {
			keys = append(keys, k.String())
		}
		sort.Strings(keys)
		var sb strings.Builder
		sb.WriteString("(map")
		for _, k := range keys {
			fmt.Fprintf(&sb, " (%s %s)", encStr(k), encGoVal(v.MapIndex(reflect.ValueOf(k))))
		}
		sb.WriteByte(')')
		return sb.String()
	case reflect.Ptr:
		if v.IsNil() {
			return "nilptr"
		}
		return "(ptr " + encGoVal(v.Elem()) + ")"
	case reflect.Struct:
		var sb strings.Builder
		sb.WriteString("(st")
		for i := 0; i < rt.NumField(); i++ {
			fmt.Fprintf(&sb, " (%s %s)", encStr(rt.Field(i).Tag.Get("cty")), encGoVal(v.Field(i)))
		}
		sb.WriteByte(')')
		return sb.String()
	}
	panic("encGoVal: unsupported " + rt.String())
}

// c18Strings collects every string and map key inside a Go value (oracle
// column for ctystrings.Normalize).
func c18Strings(v reflect.Value, out map[string]struct{}) {
	rt := v.Type()
	if rt == c18BigIntT || rt == c18BigFloatT || rt == c18ValueT {
		return
	}
	switch rt.Kind() {
	case reflect.String:
		out[v.String()] = struct{}{}
	case reflect.Slice, reflect.Array:
		for i := 0; i < v.Len(); i++ {
			c18Strings(v.Index(i), out)
		}
	case reflect.Map:
		for _, k := range v.MapKeys() {
			out[k.String()] = struct{}{}
			c18Strings(v.MapIndex(k), out)
		}
	case reflect.Ptr:
		if !v.IsNil() {
			c18Strings(v.Elem(), out)
		}
	case reflect.Struct:
		for i := 0; i < v.NumField(); i++ {
			c18Strings(v.Field(i), out)
		}
	}
}

// c18TagTab: the oracle column for the struct tags of a Go type (ImpliedType hands them to
// cty.Object, which normalises attribute names)
func c18TagTab(rt reflect.Type) string {
	m := map[string]struct{}{}
	seen := map[reflect.Type]bool{}
	var walk func(rt reflect.Type)
	walk = func(rt reflect.Type) {
		if seen[rt] || rt == c18BigIntT || rt == c18BigFloatT || rt == c18ValueT {
			return
		}
		seen[rt] = true
		switch rt.Kind() {
		case reflect.Ptr, reflect.Slice, reflect.Array, reflect.Map:
			walk(rt.Elem())
		case reflect.Struct:
			for i := 0; i < rt.NumField(); i++ {
				if t := rt.Field(i).Tag.Get("cty"); t != "" {
					m[t] = struct{}{}
				}
				walk(rt.Field(i).Type)
			}
		}
	}
	walk(rt)
	keys := make([]string, 0, len(m))
	for k := range m {
		keys = append(keys, k)
	}
	sort.Strings(keys)
	var parts []string
	for _, k := range keys {
		if n := cty.NormalizeString(k); n != k {
			parts = append(parts, "("+encStr(k)+" "+encStr(n)+")")
		}
	}
	return "(" + strings.Join(parts, " ") + ")"
}

func c18NormTab(v reflect.Value) (tab string, allNFC bool) {
	m := map[string]struct{}{}
	c18Strings(v, m)
	keys := make([]string, 0, len(m))
	for k := range m {
		keys = append(keys, k)
	}
	sort.Strings(keys)
	var parts []string
	for _, k := range keys {
		if n := cty.NormalizeString(k); n != k {
			parts = append(parts, "("+encStr(k)+" "+encStr(n)+")")
		}
	}
	return "(" + strings.Join(parts, " ") + ")", len(parts) == 0
}

// ---- the harness' own reading of "the value type implied by the Go type" ---

// c18Bridge is the type the property converts through: ImpliedType's rules,
// with arrays as lists and big numbers as numbers.  pure reports that neither
// extension was used (then the real ImpliedType must agree).
func c18Bridge(rt reflect.Type) (t cty.Type, pure bool, err error) {
	switch rt {
	case c18BigIntT, c18BigFloatT:
		return cty.Number, false, nil
	case c18ValueT:
		return cty.DynamicPseudoType, true, nil
	}
	switch rt.Kind() {
	case reflect.Ptr:
		return c18Bridge(rt.Elem())
	case reflect.Bool:
		return cty.Bool, true, nil
	case reflect.Int, reflect.Int8, reflect.Int16, reflect.Int32, reflect.Int64,
		reflect.Uint, reflect.Uint8, reflect.Uint16, reflect.Uint32, reflect.Uint64,
		reflect.Float32, reflect.Float64:
		return cty.Number, true, nil
	case reflect.String:
		return cty.String, true, nil
	case reflect.Slice:
		e, p, err := c18Bridge(rt.Elem())
		if err != nil {
			return cty.NilType, false, err
		}
		return cty.List(e), p, nil
	case reflect.Array:
		e, _, err := c18Bridge(rt.Elem())
		if err != nil {
			return cty.NilType, false, err
		}
		return cty.List(e), false, nil
	case reflect.Map:
		e, p, err := c18Bridge(rt.Elem())
		if err != nil {
			return cty.NilType, false, err
		}
		return cty.Map(e), p, nil
	case reflect.Struct:
		atys := map[string]cty.Type{}
		pure = true
		for i := 0; i < rt.NumField(); i++ {
			tag := rt.Field(i).Tag.Get("cty")
			if tag == "" {
				continue
			}
			e, p, err := c18Bridge(rt.Field(i).Type)
			if err != nil {
				return cty.NilType, false, err
			}
			pure = pure && p
			atys[tag] = e
		}
		if len(atys) == 0 {
			return cty.NilType, false, fmt.Errorf("no tags")
		}
		return cty.Object(atys), pure, nil
	}
	return cty.NilType, false, fmt.Errorf("unsupported")
}

// ---- generation of Go values ------------------------------------------------

type c18Mode int

const (
	c18Clean  c18Mode = iota // NFC strings; nil pointers only where the pointee can not be nil itself
	c18NonNFC                // at least the chance of strings / keys that are not NFC
	c18NilAny                // nil pointers anywhere (e.g. the outer level of **int, *[]string)
)

type c18Gen struct {
	r      *rand.Rand
	mode   c18Mode
	hitNFC bool // a non-NFC string was generated
	hitNil bool // a nil pointer to a nilable / array / cty.Value pointee was generated
	// distinct: every leaf gets a value of its own (1, 2, 3, ...), every slice and map has three
	// entries and no pointer is nil, so that entries sharing a pointee after decoding show up
	distinct bool
	seq      int
	// cty.Value members of a slice, array or map: cvTy != nil — all of this one type (a cty list or map
	// has one element type); cvTyped — each of a type of its own, never the dynamic pseudo-type
	cvTy     *cty.Type
	cvTyped  bool
	hitMixed bool // a container of cty.Value got members of different types
}

var c18NonNFCAtoms = []string{"é", "Å", "가", "áb"}

func (g *c18Gen) str() string {
	s := cty.NormalizeString(genString(g.r))
	if g.mode == c18NonNFC && g.r.Intn(2) == 0 {
		s += c18NonNFCAtoms[g.r.Intn(len(c18NonNFCAtoms))]
		if cty.NormalizeString(s) != s {
			g.hitNFC = true
		}
	}
	return s
}

func c18RandBigInt(r *rand.Rand) *big.Int {
	switch r.Intn(5) {
	case 0:
		return big.NewInt(int64(r.Intn(7) - 3))
	case 1:
		z := new(big.Int).Lsh(big.NewInt(1), uint(r.Intn(130)))
		z.Add(z, big.NewInt(int64(r.Intn(3)-1)))
		if r.Intn(2) == 0 {
			z.Neg(z)
		}
		return z
	case 2:
		return new(big.Int).SetUint64(r.Uint64())
	case 3:
		return big.NewInt(-r.Int63())
	default:
		return big.NewInt(0)
	}
}

func c18RandBigFloat(r *rand.Rand) *big.Float {
	switch r.Intn(7) {
	case 0:
		return new(big.Float) // precision 0
	case 1:
		return new(big.Float).SetPrec(uint(1 + r.Intn(40))).SetFloat64(float64(r.Intn(4000)-2000) / 16)
	case 2:
		f, _, _ := big.ParseFloat([]string{"0.1", "1e400", "-2.5e-400", "123456789.123456789", "3.9477794105"}[r.Intn(5)], 10, 512, big.ToNearestEven)
		return f
	case 3:
		return new(big.Float).SetInf(r.Intn(2) == 0)
	case 4:
		return new(big.Float).SetInt(c18RandBigInt(r))
	case 5:
		return new(big.Float).Neg(new(big.Float).SetPrec(64)) // -0
	default:
		return new(big.Float).SetFloat64(math.Float64frombits(r.Uint64()&^(0x7ff<<52)) * 8)
	}
}

func c18RandFloat(r *rand.Rand, is32 bool) float64 {
	if is32 {
		fs := []float32{0, float32(math.Copysign(0, -1)), 1.5, -2.25, math.MaxFloat32, -math.MaxFloat32, math.SmallestNonzeroFloat32,
			float32(math.Inf(1)), float32(math.Inf(-1)), 0.1, 16777216, 1e-40}
		if r.Intn(2) == 0 {
			return float64(fs[r.Intn(len(fs))])
		}
		f := math.Float32frombits(r.Uint32())
		if f != f {
			f = 2.5
		}
		return float64(f)
	}
	fs := []float64{0, math.Copysign(0, -1), 1.5, -2.25, math.MaxFloat64, -math.MaxFloat64, math.SmallestNonzeroFloat64,
		math.Inf(1), math.Inf(-1), 0.1, 1 << 53, 1e-310, math.MaxFloat32, 1e39}
	if r.Intn(2) == 0 {
		return fs[r.Intn(len(fs))]
	}
	f := math.Float64frombits(r.Uint64())
	if f != f {
		f = 2.5
	}
	return f
}

func c18RandInt(r *rand.Rand, bits int) int64 {
	lo := int64(-1) << uint(bits-1)
	hi := -(lo + 1)
	switch r.Intn(6) {
	case 0:
		return lo
	case 1:
		return hi
	case 2:
		return int64(r.Intn(7) - 3)
	case 3:
		return lo + int64(r.Intn(3))
	case 4:
		return hi - int64(r.Intn(3))
	default:
		return r.Int63()>>uint(64-bits) - (hi+1)/2
	}
}

func c18RandUint(r *rand.Rand, bits int) uint64 {
	hi := uint64(math.MaxUint64) >> uint(64-bits)
	switch r.Intn(5) {
	case 0:
		return 0
	case 1:
		return hi
	case 2:
		return uint64(r.Intn(5))
	case 3:
		return hi - uint64(r.Intn(3))
	default:
		return r.Uint64() >> uint(64-bits)
	}
}

// c18CvalElem: the element type is cty.Value, possibly behind pointers
func c18CvalElem(rt reflect.Type) bool {
	for rt.Kind() == reflect.Ptr {
		rt = rt.Elem()
	}
	return rt == c18ValueT
}

// c18MixedCval: a slice, array or map whose cty.Value members (behind non-nil pointers) are not all of one type
func c18MixedCval(v reflect.Value) bool {
	var tys []cty.Type
	add := func(e reflect.Value) {
		for e.Kind() == reflect.Ptr {
			if e.IsNil() {
				return
			}
			e = e.Elem()
		}
		tys = append(tys, e.Interface().(cty.Value).Type())
	}
	switch v.Kind() {
	case reflect.Slice, reflect.Array:
		for i := 0; i < v.Len(); i++ {
			add(v.Index(i))
		}
	case reflect.Map:
		for _, k := range v.MapKeys() {
			add(v.MapIndex(k))
		}
	}
	for _, t := range tys {
		if !t.Equals(tys[0]) {
			return true
		}
	}
	return false
}

func c18NilableElem(rt reflect.Type) bool {
	if rt == c18ValueT {
		return true
	}
	switch rt.Kind() {
	case reflect.Ptr, reflect.Slice, reflect.Map, reflect.Array:
		return true
	}
	return false
}

var c18MapKeys = []string{"a", "b", "k", "zz", "", "é"}

func (g *c18Gen) gen(rt reflect.Type, depth int) reflect.Value {
	r := g.r
	v := reflect.New(rt).Elem()
	switch rt {
	case c18BigIntT:
		if g.distinct {
			g.seq++
			v.Set(reflect.ValueOf(*big.NewInt(int64(g.seq))))
			return v
		}
		v.Set(reflect.ValueOf(*c18RandBigInt(r)))
		return v
	case c18BigFloatT:
		if g.distinct {
			g.seq++
			v.Set(reflect.ValueOf(*new(big.Float).SetFloat64(float64(g.seq) + 0.5)))
			return v
		}
		v.Set(reflect.ValueOf(*c18RandBigFloat(r)))
		return v
	case c18ValueT:
		if g.cvTy != nil || g.cvTyped {
			t := genTy(r, 1, TyOpts{})
			if g.cvTy != nil {
				t = *g.cvTy
			}
			v.Set(reflect.ValueOf(genVal(r, t, 2, ValOpts{Unknown: true, Null: true, Marks: r.Intn(4) == 0})))
			return v
		}
		t := genTy(r, 2, TyOpts{Dyn: true, Capsule: false})
		v.Set(reflect.ValueOf(genVal(r, t, 2, ValOpts{Unknown: true, Null: true, Marks: true, DynVal: true})))
		return v
	}
	if k := rt.Kind(); (k == reflect.Slice || k == reflect.Array || k == reflect.Map) && c18CvalElem(rt.Elem()) && g.cvTy == nil && !g.cvTyped {
		if r.Intn(3) != 0 {
			t := genTy(r, 1, TyOpts{})
			g.cvTy = &t
		} else {
			g.cvTyped = true
		}
		defer func() {
			g.cvTy, g.cvTyped = nil, false
			if c18MixedCval(v) {
				g.hitMixed = true
			}
		}()
	}
	switch rt.Kind() {
	case reflect.Int8, reflect.Int16, reflect.Int32, reflect.Int64, reflect.Int:
		if g.distinct {
			g.seq++
			v.SetInt(int64(g.seq % 100))
			break
		}
		v.SetInt(c18RandInt(r, rt.Bits()))
	case reflect.Uint8, reflect.Uint16, reflect.Uint32, reflect.Uint64, reflect.Uint:
		if g.distinct {
			g.seq++
			v.SetUint(uint64(g.seq % 100))
			break
		}
		v.SetUint(c18RandUint(r, rt.Bits()))
	case reflect.Float32:
		if g.distinct {
			g.seq++
			v.SetFloat(float64(g.seq%100) + 0.5)
			break
		}
		v.SetFloat(c18RandFloat(r, true))
	case reflect.Float64:
		if g.distinct {
			g.seq++
			v.SetFloat(float64(g.seq%100) + 0.25)
			break
		}
		v.SetFloat(c18RandFloat(r, false))
	case reflect.String:
		if g.distinct {
			g.seq++
			v.SetString(fmt.Sprintf("s%d", g.seq))
			break
		}
		v.SetString(g.str())
	case reflect.Bool:
		if g.distinct {
			g.seq++
			v.SetBool(g.seq%2 == 0)
			break
		}
		v.SetBool(r.Intn(2) == 0)
	case reflect.Slice:
		if !g.distinct && r.Intn(8) == 0 {
			return v // nil
		}
		n := r.Intn(4)
		if g.distinct {
			n = 3
		}
		if depth <= 0 {
			n = 0
		}
		s := reflect.MakeSlice(rt, n, n)
		for i := 0; i < n; i++ {
			s.Index(i).Set(g.gen(rt.Elem(), depth-1))
		}
		v.Set(s)
	case reflect.Array:
		for i := 0; i < rt.Len(); i++ {
			v.Index(i).Set(g.gen(rt.Elem(), depth-1))
		}
	case reflect.Map:
		if !g.distinct && r.Intn(8) == 0 {
			return v
		}
		n := r.Intn(4)
		if g.distinct {
			n = 3
		}
		if depth <= 0 {
			n = 0
		}
		m := reflect.MakeMap(rt)
		for i := 0; i < n; i++ {
			k := c18MapKeys[r.Intn(len(c18MapKeys))]
			if g.distinct {
				k = c18MapKeys[i] // three different keys
			}
			if g.mode == c18NonNFC && r.Intn(3) == 0 {
				k = c18NonNFCAtoms[r.Intn(len(c18NonNFCAtoms))]
				g.hitNFC = true
			}
			m.SetMapIndex(reflect.ValueOf(k), g.gen(rt.Elem(), depth-1))
		}
		v.Set(m)
	case reflect.Ptr:
		nilOK := !c18NilableElem(rt.Elem()) || g.mode == c18NilAny
		if nilOK && !g.distinct && r.Intn(3) == 0 {
			if c18NilableElem(rt.Elem()) {
				g.hitNil = true
			}
			return v
		}
		p := reflect.New(rt.Elem())
		p.Elem().Set(g.gen(rt.Elem(), depth))
		v.Set(p)
	case reflect.Struct:
		for i := 0; i < rt.NumField(); i++ {
			if rt.Field(i).Tag.Get("cty") == "" {
				continue // stays zero: the bridge does not carry untagged fields
			}
			v.Field(i).Set(g.gen(rt.Field(i).Type, depth-1))
		}
	case reflect.Interface:
		// stays nil (only in judge-only targets outside the model)
	default:
		panic("c18 gen: unsupported " + rt.String())
	}
	return v
}

// ---- running the real code ---------------------------------------------------

func c18From(v cty.Value, rt reflect.Type) (impl string, target reflect.Value, err error, panicked bool, why string) {
	target = reflect.New(rt)
	panicked, why = try(func() { err = gocty.FromCtyValue(v, target.Interface()) })
	switch {
	case panicked:
		impl = "panic"
	case err != nil:
		impl = "err"
	default:
		impl = "ok " + encGoVal(target.Elem())
	}
	return
}

func c18To(g reflect.Value, ty cty.Type) (impl string, v cty.Value, err error, panicked bool) {
	panicked, _ = try(func() { v, err = gocty.ToCtyValue(g.Interface(), ty) })
	switch {
	case panicked:
		impl = "panic"
	case err != nil:
		impl = "err"
	default:
		impl = "ok " + encVal(v)
	}
	return
}

// c18AddFrom records a decode as a correspondence case.  A failure is sent together with what
// was observed: fromCtyObject ranges over a Go map, so which failing attribute is met first
// (an error or a panic) is Go's choice; the model accepts the answer iff some schedule gives it.
func c18AddFrom(ctx *Ctx, impl, vw, tw string) {
	if impl == "err" || impl == "panic" {
		ctx.Add("gocty.fromcty", impl, vw, tw, impl)
		return
	}
	ctx.Add("gocty.fromcty", impl, vw, tw)
}

func c18NumLit(f *big.Float) string {
	if f.IsInf() {
		if f.Signbit() {
			return "cty.NegativeInfinity"
		}
		return "cty.PositiveInfinity"
	}
	return fmt.Sprintf("cty.MustParseNumberVal(%q)", f.Text('g', -1))
}

// ---- (a) numbers -------------------------------------------------------------

func c18Boundaries() []*big.Float {
	var out []*big.Float
	add := func(f *big.Float) { out = append(out, f) }
	mk := func(z *big.Int, half int) *big.Float {
		f := new(big.Float).SetPrec(512).SetInt(z)
		if half != 0 {
			f.Add(f, new(big.Float).SetPrec(512).SetFloat64(0.5*float64(half)))
		}
		return f
	}
	for _, k := range []uint{0, 7, 8, 15, 16, 31, 32, 63, 64} {
		for _, sgn := range []int64{1, -1} {
			for d := int64(-1); d <= 1; d++ {
				z := new(big.Int).Lsh(big.NewInt(1), k)
				if k == 0 {
					z.SetInt64(0)
				}
				z.Mul(z, big.NewInt(sgn))
				z.Add(z, big.NewInt(d))
				add(mk(z, 0))
				add(mk(z, 1))
				add(mk(z, -1))
			}
		}
	}
	for _, s := range []string{"1e30", "-1e30", "0.1", "1267650600228229401496703205376", "-1267650600228229401496703205376", "1e400", "-1e400",
		"18446744073709551615.5", "9223372036854775807.000000000000000001"} {
		f, _, _ := big.ParseFloat(s, 10, 512, big.ToNearestEven)
		add(f)
	}
	add(new(big.Float).SetInf(false))
	add(new(big.Float).SetInf(true))
	add(new(big.Float).Neg(new(big.Float).SetPrec(64)))                     // -0
	add(new(big.Float).SetPrec(8).SetInt64(96))                             // low precision
	add(new(big.Float).SetPrec(3).SetInt64(128))                            // low precision, boundary
	add(new(big.Float).SetPrec(53).SetFloat64(math.SmallestNonzeroFloat64)) // tiny
	return out
}

func c18FloatBoundaries() []*big.Float {
	var out []*big.Float
	p := func(s string) {
		f, _, err := big.ParseFloat(s, 10, 512, big.ToNearestEven)
		if err != nil {
			panic(err)
		}
		out = append(out, f, new(big.Float).Neg(f))
	}
	f64 := func(f float64) {
		out = append(out, new(big.Float).SetFloat64(f), new(big.Float).SetFloat64(-f))
	}
	pow := func(k int) *big.Float { return new(big.Float).SetPrec(512).SetMantExp(big.NewFloat(1), k) }
	sub := func(a, b *big.Float) *big.Float { return new(big.Float).SetPrec(512).Sub(a, b) }
	addf := func(a, b *big.Float) *big.Float { return new(big.Float).SetPrec(512).Add(a, b) }
	ex := func(f *big.Float) { out = append(out, f, new(big.Float).Neg(f)) }
	f64(0)
	f64(1.5)
	f64(0.1)
	f64(math.MaxFloat32)
	f64(float64(math.MaxFloat32) * (1 + 1e-9))
	f64(math.MaxFloat64)
	f64(math.SmallestNonzeroFloat64)
	f64(math.SmallestNonzeroFloat32)
	f64(float64(math.SmallestNonzeroFloat32) / 2)
	f64(float64(math.SmallestNonzeroFloat32) / 2 * (1 + 1e-9))
	f64(1.1754943508222875e-38) // smallest normal float32
	f64(2.2250738585072014e-308)
	f64(16777217) // 2^24+1: not a float32
	f64(1e39)
	p("1e39")
	p("1e400")
	p("1e-400")
	p("0.1")
	p("3.4028235677973366e38") // float32 overflow threshold, decimal
	p("1.7976931348623158e308")
	p("1.7976931348623159e308")
	// float32 overflow threshold 2^128 - 2^103 and its neighbours
	t32 := sub(pow(128), pow(103))
	ex(t32)
	ex(sub(t32, pow(40)))
	ex(addf(t32, pow(40)))
	ex(pow(128))
	ex(sub(pow(128), pow(104))) // MaxFloat32
	// float64 overflow threshold 2^1024 - 2^970 and its neighbours
	t64 := sub(pow(1024), pow(970))
	ex(t64)
	ex(sub(t64, pow(600)))
	ex(addf(t64, pow(600)))
	ex(pow(1024))
	// half of the smallest denormals and just above
	ex(pow(-1075))
	ex(addf(pow(-1075), pow(-1200)))
	ex(pow(-1076))
	ex(pow(-150))
	ex(addf(pow(-150), pow(-300)))
	ex(pow(-151))
	// double rounding: halfway between two float32 after rounding to float64 only
	ex(addf(addf(pow(0), pow(-24)), pow(-80)))
	ex(addf(pow(0), pow(-24)))
	ex(addf(addf(pow(0), pow(-23)), addf(pow(-24), pow(-80))))
	out = append(out, new(big.Float).SetInf(false), new(big.Float).SetInf(true))
	return out
}

func c18IntRange(rt reflect.Type) (lo, hi *big.Int) {
	bits := uint(rt.Bits())
	switch rt.Kind() {
	case reflect.Int8, reflect.Int16, reflect.Int32, reflect.Int64, reflect.Int:
		hi = new(big.Int).Lsh(big.NewInt(1), bits-1)
		lo = new(big.Int).Neg(hi)
		hi.Sub(hi, big.NewInt(1))
	default:
		lo = big.NewInt(0)
		hi = new(big.Int).Lsh(big.NewInt(1), bits)
		hi.Sub(hi, big.NewInt(1))
	}
	return
}

func runC18Numbers(ctx *Ctx) {
	// integers
	for _, fam := range c18IntTypes {
		rt := fam.rt
		lo, hi := c18IntRange(rt)
		for _, x := range c18Boundaries() {
			v := cty.NumberVal(new(big.Float).Copy(x))
			impl, target, _, panicked, why := c18From(v, rt)
			nw, tw := cty.VerifNumWire(x), encGoTy(rt)
			ctx.Add("gocty.fromnum", impl, nw, tw)
			ctx.Eval("fromnum "+nw+" "+tw, true)
			ctx.Tag("int:" + rt.String())
			whole := !x.IsInf() && x.IsInt()
			var xi *big.Int
			if whole {
				xi, _ = x.Int(nil)
			}
			want := whole && xi.Cmp(lo) >= 0 && xi.Cmp(hi) <= 0
			lit := fmt.Sprintf("var t %s; err := gocty.FromCtyValue(%s, &t)", rt, c18NumLit(x))
			switch {
			case panicked:
				ctx.Fail(Failure{Site: "int_ok_iff", Sig: "panic decoding a number into " + rt.String(), What: "FromCtyValue panicked: " + why, Input: nw + " " + tw, GoLit: lit, Outcome: "panic"})
			case want != strings.HasPrefix(impl, "ok"):
				sig := fmt.Sprintf("representable=%v but ok=%v for %s", want, !want, rt)
				if !want && !whole && lo.Sign() == 0 {
					sig = "fractional number truncated into an unsigned integer target without error"
				}
				ctx.Fail(Failure{Site: "int_ok_iff", Sig: sig, What: "decoding succeeds iff the number is whole and in range", Input: nw + " " + tw, GoLit: lit, Outcome: impl})
			case want:
				var got *big.Int
				if lo.Sign() < 0 {
					got = big.NewInt(target.Elem().Int())
				} else {
					got = new(big.Int).SetUint64(target.Elem().Uint())
				}
				if got.Cmp(xi) != 0 {
					ctx.Fail(Failure{Site: "int_ok_iff", Sig: "stored integer differs for " + rt.String(), What: "a representable number must be stored exactly", Input: nw + " " + tw, GoLit: lit, Outcome: impl})
				}
			}
		}
	}
	// floats
	for _, is32 := range []bool{true, false} {
		rt := c18T(new(float64))
		maxF := new(big.Float).SetFloat64(math.MaxFloat64)
		if is32 {
			maxF = new(big.Float).SetFloat64(math.MaxFloat32)
		}
		thr := new(big.Float).SetPrec(512).Sub(new(big.Float).SetMantExp(big.NewFloat(1), 1024), new(big.Float).SetMantExp(big.NewFloat(1), 970))
		if is32 {
			rt = c18T(new(float32))
			thr = new(big.Float).SetPrec(512).Sub(new(big.Float).SetMantExp(big.NewFloat(1), 128), new(big.Float).SetMantExp(big.NewFloat(1), 103))
		}
		for _, x := range c18FloatBoundaries() {
			v := cty.NumberVal(new(big.Float).Copy(x))
			impl, target, _, panicked, why := c18From(v, rt)
			nw, tw := cty.VerifNumWire(x), encGoTy(rt)
			ctx.Add("gocty.fromnum", impl, nw, tw)
			ctx.Eval("fromnum "+nw+" "+tw, true)
			ctx.Tag("float:" + rt.String())
			lit := fmt.Sprintf("var t %s; err := gocty.FromCtyValue(%s, &t)", rt, c18NumLit(x))
			// "within the type's finite range": |x| <= MaxFloat must be accepted, a number that even
			// correct rounding turns into an infinity (|x| >= MaxFloat + ulp/2) must be refused; the
			// property does not say which way the band in between goes, so it is not judged
			ax := new(big.Float).Abs(x)
			inRange := x.IsInf() || ax.Cmp(maxF) <= 0
			beyond := !x.IsInf() && ax.Cmp(thr) >= 0
			ok := strings.HasPrefix(impl, "ok")
			switch {
			case panicked:
				ctx.Fail(Failure{Site: "float_ok_iff", Sig: "panic decoding a number into " + rt.String(), What: "FromCtyValue panicked: " + why, Input: nw + " " + tw, GoLit: lit, Outcome: "panic"})
			case beyond && ok:
				got := target.Elem().Float()
				ctx.Fail(Failure{Site: "float_ok_iff", Sig: fmt.Sprintf("finite number beyond the range of %s stored as %v without error", rt, math.Inf(int(got))),
					What:  "a finite number outside the type's finite range must be refused, not stored as an infinity",
					Input: nw + " " + tw, GoLit: lit, Outcome: impl})
			case inRange && !ok:
				ctx.Fail(Failure{Site: "float_ok_iff", Sig: "number within the range of " + rt.String() + " refused", What: "a number within the finite range (or an infinity) must be accepted",
					Input: nw + " " + tw, GoLit: lit, Outcome: impl})
			case ok:
				got := target.Elem().Float()
				good := false
				if x.IsInf() {
					good = math.IsInf(got, x.Sign())
				} else if is32 {
					n, acc := x.Float32()
					if acc == big.Exact {
						good = float32(got) == n && math.Signbit(got) == math.Signbit(float64(n))
					} else {
						// inexact: exactly Go's two-step conversion float32(x.Float64()) (C18.float_ok_iff; d18b: no longer
						// "either neighbour") — which differs from the nearest float32 only in the double-rounding band
						// (C18.float32StoresNearest_counterexample; counted in c18_d18b.go)
						// The property does not say which rounding an unrepresentable number gets, so the correctly rounded
						// float32 (n, what a repair of the double rounding would store) is accepted too; which of the two the
						// code stores is compared by the correspondence (a drift there is a broken tie, not a failing input).
						f64, _ := x.Float64()
						good = (float32(got) == float32(f64) && math.Signbit(got) == math.Signbit(f64)) || (float32(got) == n && math.Signbit(got) == math.Signbit(float64(n)))
					}
				} else {
					n, _ := x.Float64()
					good = got == n && math.Signbit(got) == math.Signbit(n)
				}
				if !good {
					ctx.Fail(Failure{Site: "float_ok_iff", Sig: "stored float is not the number (rounded) for " + rt.String(), What: "an accepted number must be stored (to the type's precision)",
						Input: nw + " " + tw, GoLit: lit, Outcome: impl})
				}
			}
		}
	}
}

// ---- (b) round trip ----------------------------------------------------------

func c18HasSpecial(rt reflect.Type) bool {
	if rt == c18BigIntT || rt == c18BigFloatT || rt == c18ValueT {
		return true
	}
	switch rt.Kind() {
	case reflect.Ptr, reflect.Slice, reflect.Array, reflect.Map:
		return c18HasSpecial(rt.Elem())
	case reflect.Struct:
		for i := 0; i < rt.NumField(); i++ {
			if c18HasSpecial(rt.Field(i).Type) {
				return true
			}
		}
	}
	return false
}

func c18Nested(rt reflect.Type) bool {
	switch rt.Kind() {
	case reflect.Ptr, reflect.Slice, reflect.Array, reflect.Map, reflect.Struct:
		return true
	}
	return false
}

// c18SharedPointee reports a pointer (or the backing array of a non-empty slice, or a
// map) that is reachable twice inside one decoded value: FromCtyValue builds a
// fresh tree, so two entries sharing a pointee would let a write through one
// show in the other.  big.Int / big.Float / cty.Value are opaque here.
func c18SharedPointee(v reflect.Value) string {
	seen := map[uintptr]string{}
	var walk func(v reflect.Value, path string) string
	walk = func(v reflect.Value, path string) string {
		rt := v.Type()
		if rt == c18BigIntT || rt == c18BigFloatT || rt == c18ValueT {
			return ""
		}
		switch rt.Kind() {
		case reflect.Ptr:
			if v.IsNil() {
				return ""
			}
			if p, ok := seen[v.Pointer()]; ok {
				return p + " and " + path
			}
			seen[v.Pointer()] = path
			return walk(v.Elem(), "*"+path)
		case reflect.Slice:
			if v.IsNil() || v.Len() == 0 {
				return ""
			}
			if rt.Elem().Size() > 0 {
				if p, ok := seen[v.Pointer()]; ok {
					return p + " and " + path
				}
				seen[v.Pointer()] = path
			}
			fallthrough
		case reflect.Array:
			for i := 0; i < v.Len(); i++ {
				if s := walk(v.Index(i), fmt.Sprintf("%s[%d]", path, i)); s != "" {
					return s
				}
			}
		case reflect.Map:
			if v.IsNil() {
				return ""
			}
			if v.Len() > 0 {
				if p, ok := seen[v.Pointer()]; ok {
					return p + " and " + path
				}
				seen[v.Pointer()] = path
			}
			keys := v.MapKeys()
			sort.Slice(keys, func(i, j int) bool { return keys[i].String() < keys[j].String() })
			for _, k := range keys {
				if s := walk(v.MapIndex(k), fmt.Sprintf("%s[%q]", path, k.String())); s != "" {
					return s
				}
			}
		case reflect.Struct:
			for i := 0; i < v.NumField(); i++ {
				if s := walk(v.Field(i), path+"."+rt.Field(i).Name); s != "" {
					return s
				}
			}
		}
		return ""
	}
	return walk(v, "t")
}

func runC18RoundTrip(ctx *Ctx) {
	var fams []c18Fam
	for _, f := range c18Family {
		if f.roundtrip {
			fams = append(fams, f)
		}
	}
	// ImpliedType / bridge type of every member of the family and of the implied-only shapes
	allImplied := append([]c18Fam{}, c18Family...)
	for _, rt := range c18ImpliedOnly {
		allImplied = append(allImplied, c18Fam{rt, false, false})
	}
	for _, f := range allImplied {
		tw := encGoTy(f.rt)
		bt, pure, berr := c18Bridge(f.rt)
		var it cty.Type
		var ierr error
		pn, _ := try(func() { it, ierr = gocty.ImpliedType(reflect.Zero(f.rt).Interface()) })
		impl := "err"
		switch {
		case pn:
			impl = "panic"
		case ierr == nil:
			impl = "ok " + encTy(it)
		}
		ctx.Add("gocty.implied", impl, tw, c18TagTab(f.rt))
		realBridge, isReal := c18RealBridge(f.rt)
		if isReal {
			// the real ImpliedType on the Go type with arrays as slices and big numbers as int / float64
			ctx.Add("gocty.bridge", realBridge, tw, c18TagTab(f.rt))
			ctx.Tag("bridge:real-ImpliedType")
			want := "err"
			if berr == nil {
				want = "ok " + encTy(bt)
			}
			if realBridge != want {
				ctx.Fail(Failure{Site: "implied", Sig: "ImpliedType of the array-free, big-free variant differs from the documented mapping", What: "bridge type", Input: tw, GoLit: f.rt.String(), Outcome: realBridge})
			}
		}
		if berr == nil {
			if !isReal {
				ctx.Add("gocty.bridge", "ok "+encTy(bt), tw, c18TagTab(f.rt))
				ctx.Tag("bridge:harness-mirror")
			}
			if pure && (ierr != nil || !it.Equals(bt)) {
				ctx.Fail(Failure{Site: "implied", Sig: "ImpliedType differs from the documented mapping", What: "ImpliedType result", Input: tw, GoLit: f.rt.String(), Outcome: impl})
			}
			if !pure && ierr == nil {
				ctx.Fail(Failure{Site: "implied", Sig: "ImpliedType accepts an array or big number", What: "ImpliedType documents no cty type for arrays and big numbers", Input: tw, GoLit: f.rt.String(), Outcome: impl})
			}
		} else {
			if !isReal {
				ctx.Add("gocty.bridge", "err", tw, c18TagTab(f.rt))
				ctx.Tag("bridge:harness-mirror")
			}
			if ierr == nil {
				ctx.Fail(Failure{Site: "implied", Sig: "ImpliedType accepts a struct without cty tags", What: "a struct without tagged fields has no cty type", Input: tw, GoLit: f.rt.String(), Outcome: impl})
			}
		}
		if impl == "panic" {
			ctx.Fail(Failure{Site: "implied", Sig: "ImpliedType panics", What: "ImpliedType must return a type or an error", Input: tw, GoLit: f.rt.String(), Outcome: impl})
		}
		ctx.Tag("implied:" + impl[:2])
		ctx.Eval("implied "+tw, c18Nested(f.rt))
	}
	one := func(f c18Fam, g *c18Gen, depth int) {
		gv := g.gen(f.rt, depth)
		ty, _, err := c18Bridge(f.rt)
		if err != nil {
			panic(err)
		}
		gw, tw := encGoVal(gv), encGoTy(f.rt)
		tab, _ := c18NormTab(gv)
		implTo, v, _, _ := c18To(gv, ty)
		ctx.Add("gocty.tocty", implTo, gw, encTy(ty), tab)
		if g.distinct {
			ctx.Tag("rt-mode:distinct")
		} else {
			ctx.Tag(fmt.Sprintf("rt-mode:%d", g.mode))
		}
		ctx.Tag("rt:" + f.rt.String())
		ctx.Eval("rt "+gw+" "+tw, c18Nested(f.rt))
		lit := fmt.Sprintf("g := %#v /* %s */; ty := %#v; v, _ := gocty.ToCtyValue(g, ty); var back %s; err := gocty.FromCtyValue(v, &back)", gv.Interface(), gw, ty, f.rt)
		// the label of a failure is chosen by WHAT happened, not by what the generator was allowed to do:
		// kind = "panic" | "refused" | "differs" (then d says how) | "other"
		fail := func(outcome, kind string, d *c18Diff) {
			if f.mistagged {
				ctx.Tag("rt-mistagged-not-exact")
				return
			}
			sig := "round trip does not reproduce the Go value"
			switch {
			case kind == "differs" && d != nil && !d.other && d.nilLevel:
				// (NFC differences may come on top: both recorded findings in one value)
				sig = "nil pointer to a pointer/slice/map/array/cty.Value type comes back as a non-nil pointer (or is refused)"
			case kind == "differs" && d != nil && !d.other && d.nfc:
				sig = "string or map key that is not NFC-normalized comes back normalized"
			case kind == "refused" && c18HasNilToNilable(gv):
				sig = "nil pointer to a pointer/slice/map/array/cty.Value type comes back as a non-nil pointer (or is refused)"
			}
			if d != nil && d.first != "" {
				outcome += " [" + d.first + "]"
			}
			ctx.Tag("rt-fail:" + kind)
			ctx.Fail(Failure{Site: "roundtrip", Sig: sig, What: "FromCtyValue(ToCtyValue(g, implied type)) must reproduce g exactly, nil <-> null",
				Input: gw + " " + tw, GoLit: lit, Outcome: outcome})
		}
		kindOf := func(impl string) string {
			if impl == "err" {
				return "refused"
			}
			return "panic"
		}
		if g.hitMixed {
			// members of different types can not be one cty list/map: "exact or refuses" demands an error
			ctx.Tag("rt-mixed:" + implTo[:2])
			if implTo != "err" {
				ctx.Fail(Failure{Site: "regression", Sig: "repaired defect is back: members of different types must be refused by ToCtyValue",
					What: "a Go value that has no cty representation must be refused with an error", Input: gw + " " + tw, GoLit: lit, Outcome: "ToCtyValue: " + implTo})
			}
			return
		}
		if !strings.HasPrefix(implTo, "ok") {
			fail("ToCtyValue: "+implTo, kindOf(implTo), nil)
			return
		}
		implFrom, target, _, _, _ := c18From(v, f.rt)
		c18AddFrom(ctx, implFrom, encVal(v), tw)
		if !strings.HasPrefix(implFrom, "ok") {
			fail("FromCtyValue: "+implFrom, kindOf(implFrom), nil)
			return
		}
		// encGoVal follows every pointer and prints the pointee, entry by entry: two entries that
		// came back sharing one pointee print the same (last written) value and differ from gw
		back := encGoVal(target.Elem())
		if back != gw {
			d := &c18Diff{}
			d.walk(gv, target.Elem(), "g")
			if !d.nfc && !d.nilLevel && !d.other {
				d.other = true // the canonical forms differ although the walk found nothing
			}
			fail("came back as "+back, "differs", d)
			return
		}
		if !c18HasSpecial(f.rt) && !reflect.DeepEqual(target.Elem().Interface(), gv.Interface()) {
			fail("reflect.DeepEqual is false although the canonical forms agree: "+back, "other", nil)
			return
		}
		if shared := c18SharedPointee(target.Elem()); shared != "" {
			fail("two entries of the decoded value share one pointee: "+shared, "other", nil)
		}
	}
	// every member of the family once with all-distinct leaves, three entries per slice and map, no nil pointer
	for _, f := range fams {
		for depth := 2; depth <= 4; depth++ {
			one(f, &c18Gen{r: ctx.R, mode: c18Clean, distinct: true}, depth)
		}
	}
	n := ctx.N(40000, 400000)
	for i := 0; i < n; i++ {
		f := fams[i%len(fams)]
		g := &c18Gen{r: ctx.R, mode: c18Clean}
		switch ctx.R.Intn(10) {
		case 0:
			g.mode = c18NonNFC
		case 1:
			g.mode = c18NilAny
		case 2, 3:
			g.distinct = true
		}
		one(f, g, 3)
	}
	// repaired defect 99f9cb6: members of different types are refused with an error (list, map, set target)
	for _, w := range []struct {
		g  interface{}
		ty cty.Type
	}{
		{[]cty.Value{cty.False, cty.NullVal(cty.String)}, cty.List(cty.DynamicPseudoType)},
		{map[string]cty.Value{"a": cty.StringVal("a"), "b": cty.NumberIntVal(1)}, cty.Map(cty.DynamicPseudoType)},
		{[]cty.Value{cty.StringVal("a"), cty.NumberIntVal(1)}, cty.Set(cty.DynamicPseudoType)},
		{[2]cty.Value{cty.True, cty.EmptyObjectVal}, cty.List(cty.DynamicPseudoType)},
	} {
		gv := reflect.ValueOf(w.g)
		impl, _, _, _ := c18To(gv, w.ty)
		if w.ty.IsSetType() {
			ctx.Tag("regression") // sets built by ToCtyValue are not modelled
		} else {
			ctx.Add("gocty.tocty", impl, encGoVal(gv), encTy(w.ty), "()")
		}
		ctx.Eval("regression tocty "+encGoVal(gv)+" "+encTy(w.ty), true)
		if impl != "err" {
			ctx.Fail(Failure{Site: "regression", Sig: "repaired defect is back: members of different types must be refused by ToCtyValue", What: "ToCtyValue on cty.Value members of different types",
				Input: encGoVal(gv) + " " + encTy(w.ty), GoLit: fmt.Sprintf("gocty.ToCtyValue(%#v, %#v)", w.g, w.ty), Outcome: impl})
		}
	}
	// NaN is outside the property; the model still has to agree on what happens
	for _, x := range []interface{}{math.NaN(), float32(math.NaN()), []float64{1, math.NaN()}} {
		gv := reflect.ValueOf(x)
		ty, _, _ := c18Bridge(gv.Type())
		impl, _, _, _ := c18To(gv, ty)
		ctx.Add("gocty.tocty", impl, encGoVal(gv), encTy(ty), "()")
	}
	// wrong target types for ToCtyValue: errors, consistent with the model
	menu := []cty.Type{cty.Bool, cty.Number, cty.String, cty.DynamicPseudoType, cty.List(cty.String), cty.List(cty.Number), cty.Map(cty.Number), cty.Set(cty.String),
		cty.EmptyObject, cty.Object(map[string]cty.Type{"a": cty.Number, "b": cty.String}), cty.Object(map[string]cty.Type{"a": cty.Number, "zz": cty.Bool}),
		cty.EmptyTuple, cty.Tuple([]cty.Type{cty.Number, cty.String}), cty.Tuple([]cty.Type{cty.Number, cty.Number, cty.Number})}
	m := ctx.N(15000, 150000)
	for i := 0; i < m; i++ {
		f := c18Family[ctx.R.Intn(len(c18Family))]
		g := &c18Gen{r: ctx.R, mode: c18NilAny}
		gv := g.gen(f.rt, 2)
		ty := menu[ctx.R.Intn(len(menu))]
		tab, _ := c18NormTab(gv)
		impl, _, _, _ := c18To(gv, ty)
		ctx.Add("gocty.tocty", impl, encGoVal(gv), encTy(ty), tab)
		ctx.Tag("tocty-menu:" + impl[:2])
	}
}

// ---- (c) arbitrary values into every target ---------------------------------

// c18Shape says whether a known, non-null value of type t has the shape a
// target of (pointer-stripped) Go type rt accepts at all.
func c18Shape(t cty.Type, rt reflect.Type) bool {
	for rt.Kind() == reflect.Ptr {
		rt = rt.Elem()
	}
	if rt == c18ValueT {
		return true
	}
	isBig := rt == c18BigIntT || rt == c18BigFloatT
	switch {
	case t == cty.Bool:
		return rt.Kind() == reflect.Bool
	case t == cty.String:
		return rt.Kind() == reflect.String
	case t == cty.Number:
		switch rt.Kind() {
		case reflect.Int, reflect.Int8, reflect.Int16, reflect.Int32, reflect.Int64,
			reflect.Uint, reflect.Uint8, reflect.Uint16, reflect.Uint32, reflect.Uint64, reflect.Float32, reflect.Float64:
			return true
		}
		return isBig
	case t.IsListType() || t.IsSetType():
		return rt.Kind() == reflect.Slice || rt.Kind() == reflect.Array
	case t.IsMapType():
		return rt.Kind() == reflect.Map
	case t.IsObjectType():
		// includes big.Int / big.Float: structs without cty-tagged fields accept the empty object by design
		return rt.Kind() == reflect.Struct
	case t.IsTupleType():
		return rt.Kind() == reflect.Struct && !isBig
	case t.IsCapsuleType():
		return true // not judged
	}
	return false
}

func c18Depth(rt reflect.Type) (int, reflect.Type) {
	d := 0
	for rt.Kind() == reflect.Ptr {
		rt = rt.Elem()
		d++
	}
	return d, rt
}

func c18Judge(ctx *Ctx, v cty.Value, rt reflect.Type, impl string, why string) {
	vw, tw := encVal(v), c18TyName(rt)
	lit := fmt.Sprintf("var t %s; err := gocty.FromCtyValue(%#v, &t)", rt, v)
	depth, base := c18Depth(rt)
	isBig := base == c18BigIntT || base == c18BigFloatT
	if !v.ContainsMarked() && impl != "panic" {
		// unmarked: judged at every depth (c18_d18shape.go)
		c18JudgeDeep(ctx, v, rt, impl)
		return
	}
	if impl == "panic" && v.ContainsMarked() && !strings.Contains(why, "marked") {
		// the exemption is for the documented "value is marked, so must be unmarked first" panic only
		ctx.Fail(Failure{Site: "no_panic_unmarked", Sig: "FromCtyValue panics on a marked value for a reason other than the marks", What: "a marked value may only panic because it is marked: " + why,
			Input: vw + " " + tw, GoLit: lit, Outcome: "panic"})
		return
	}
	if impl == "panic" && v.ContainsMarked() {
		ctx.Tag("marked-panic:marks")
	}
	if impl == "panic" && !v.ContainsMarked() {
		sig := "FromCtyValue panics on an unmarked value"
		if isBig && v.Type().IsTupleType() {
			sig = "tuple into big.Int/big.Float: reflect Set on an unexported field panics"
		}
		ctx.Fail(Failure{Site: "no_panic_unmarked", Sig: sig, What: "for unmarked values FromCtyValue must not panic given a non-nil pointer target: " + why,
			Input: vw + " " + tw, GoLit: lit, Outcome: "panic"})
		return
	}
	if !strings.HasPrefix(impl, "ok") || base == c18ValueT {
		return
	}
	// decoding succeeded: the property demands an error in these cases
	uv, _ := v.Unmark()
	switch {
	case !uv.IsKnown():
		ctx.Fail(Failure{Site: "errors_otherwise", Sig: "unknown value decoded without error", What: "unknown values must be refused", Input: vw + " " + tw, GoLit: lit, Outcome: impl})
	case uv.IsNull():
		nilable := depth > 0 || base.Kind() == reflect.Slice || base.Kind() == reflect.Map
		if !nilable {
			ctx.Fail(Failure{Site: "errors_otherwise", Sig: "null decoded into a non-nilable target without error", What: "null into a non-nilable target must be refused", Input: vw + " " + tw, GoLit: lit, Outcome: impl})
		}
	case !c18Shape(uv.Type(), rt):
		sig := "shape mismatch decoded without error"
		ctx.Fail(Failure{Site: "errors_otherwise", Sig: sig, What: "a value whose shape does not fit the target must be refused, not silently accepted", Input: vw + " " + tw, GoLit: lit, Outcome: impl})
	}
}

func runC18Decode(ctx *Ctx) {
	vo := ValOpts{Unknown: true, Null: true, Marks: true, DynVal: true}
	emit := func(v cty.Value, rt reflect.Type, tag string) {
		impl, _, _, _, why := c18From(v, rt)
		vw, tw := encVal(v), encGoTy(rt)
		c18AddFrom(ctx, impl, vw, tw)
		ctx.Eval("fromcty "+vw+" "+tw, c18Nested(rt))
		ctx.Tag(tag + ":" + impl[:2])
		c18Judge(ctx, v, rt, impl, why)
	}
	// fixed probes against every target
	probes := []cty.Value{cty.EmptyObjectVal, cty.EmptyTupleVal, cty.NullVal(cty.DynamicPseudoType), cty.DynamicVal, cty.UnknownVal(cty.Number),
		cty.NullVal(cty.Number), cty.NullVal(cty.List(cty.String)), cty.NullVal(cty.Map(cty.Number)), cty.NullVal(cty.Set(cty.String)),
		cty.True, cty.StringVal("x"), cty.NumberIntVal(1), cty.NumberIntVal(1).Mark("m1"), cty.True.Mark("m1"), cty.NullVal(cty.Bool).Mark("m1"),
		cty.ListValEmpty(cty.String), cty.MapValEmpty(cty.Number), cty.SetValEmpty(cty.String), cty.SetVal([]cty.Value{cty.StringVal("a")}),
		cty.TupleVal([]cty.Value{cty.True, cty.EmptyTupleVal}), cty.TupleVal([]cty.Value{cty.NumberIntVal(1), cty.NullVal(cty.String)}),
		cty.TupleVal([]cty.Value{cty.NumberIntVal(7), cty.Zero, cty.Zero, cty.Zero, cty.Zero, cty.Zero, cty.Zero}),
		cty.TupleVal([]cty.Value{cty.StringVal("a"), cty.Zero, cty.Zero, cty.Zero, cty.Zero, cty.Zero, cty.Zero}),
		cty.TupleVal([]cty.Value{cty.UnknownVal(cty.Bool), cty.EmptyTupleVal}),
		cty.ObjectVal(map[string]cty.Value{"a": cty.NumberIntVal(1), "b": cty.StringVal("x")}),
		cty.ObjectVal(map[string]cty.Value{"a": cty.NumberIntVal(1), "b": cty.StringVal("x")}).Mark("m2"),
		cty.ObjectVal(map[string]cty.Value{"a": cty.NumberIntVal(1)}),
		cty.ObjectVal(map[string]cty.Value{"a": cty.NumberIntVal(1), "b": cty.StringVal("x"), "c": cty.True}),
		cty.NullVal(capsuleTypes[0])}
	for _, f := range c18Family {
		for _, v := range probes {
			emit(v, f.rt, "probe")
		}
	}
	n := ctx.N(80000, 1000000)
	for i := 0; i < n; i++ {
		f := c18Family[i%len(c18Family)]
		var v cty.Value
		tag := "shaped"
		switch ctx.R.Intn(7) {
		case 0:
			// arbitrary value of an arbitrary type
			t := genTy(ctx.R, 2, TyOpts{Dyn: true, Capsule: true})
			v = genVal(ctx.R, t, 2, vo)
			tag = "random"
		case 6:
			// a set (visited in the order of set.Set.Values: strings by bytes, numbers by value,
			// false before true, nulls last) into the target; for a slice or array target the set has
			// the target's element type when that is a primitive one
			_, base := c18Depth(f.rt)
			et := []cty.Type{cty.String, cty.Number, cty.Bool, cty.List(cty.String)}[ctx.R.Intn(4)]
			wantLen := -1
			if base.Kind() == reflect.Slice || base.Kind() == reflect.Array {
				if bt, _, err := c18Bridge(base.Elem()); err == nil && (bt == cty.String || bt == cty.Number || bt == cty.Bool) && ctx.R.Intn(5) != 0 {
					et = bt
				}
				if base.Kind() == reflect.Array && ctx.R.Intn(3) != 0 {
					wantLen = base.Len()
				}
			}
			o := ValOpts{Null: ctx.R.Intn(3) == 0, Marks: ctx.R.Intn(6) == 0, Small: ctx.R.Intn(2) == 0}
			k := ctx.R.Intn(5)
			var elems []cty.Value
			for tries := 0; tries < 40; tries++ {
				if wantLen < 0 && len(elems) >= k {
					break
				}
				elems = append(elems, genVal(ctx.R, et, 1, o))
				if sv, _ := cty.SetVal(elems).Unmark(); wantLen >= 0 && sv.IsKnown() && sv.LengthInt() >= wantLen {
					break
				}
			}
			if len(elems) == 0 {
				v = cty.SetValEmpty(et)
			} else {
				v = cty.SetVal(elems)
			}
			tag = "set"
		case 1:
			// positional decoding: a tuple with as many elements as the struct has fields
			_, base := c18Depth(f.rt)
			if base.Kind() == reflect.Struct && base != c18ValueT {
				vs := make([]cty.Value, base.NumField())
				for j := range vs {
					ft := base.Field(j).Type
					if bt, _, err := c18Bridge(ft); err == nil && ft.Kind() != reflect.Interface {
						vs[j] = genVal(ctx.R, concretize(ctx.R, bt), 2, vo)
					} else {
						// unexported fields of big.Int / big.Float
						vs[j] = genVal(ctx.R, genTy(ctx.R, 1, TyOpts{}), 1, vo)
					}
				}
				v = cty.TupleVal(vs)
				tag = "tuple"
				break
			}
			fallthrough
		default:
			bt, _, err := c18Bridge(f.rt)
			if err != nil {
				panic(err)
			}
			o := vo
			if ctx.R.Intn(2) == 0 {
				o.Marks = false
			}
			if ctx.R.Intn(3) == 0 {
				o.Unknown = false
				o.Null = ctx.R.Intn(2) == 0
			}
			v = genVal(ctx.R, concretize(ctx.R, bt), 3, o)
		}
		emit(v, f.rt, tag)
	}
}

// runC18Regressions replays the minimal witnesses of defects that were found by
// this check and repaired in /repo; they run first on every run.
func runC18Regressions(ctx *Ctx) {
	type reg struct {
		v    cty.Value
		rt   reflect.Type
		want string // what the property demands: "err" or "ok ..."
		what string
	}
	one := cty.NumberIntVal(1)
	regs := []reg{
		// fixed defect: 1e39 into float32 stored +Inf with a nil error
		{cty.MustParseNumberVal("1e39"), c18T(new(float32)), "err", "finite number beyond the float32 range must be refused"},
		{cty.MustParseNumberVal("-1e39"), c18T(new(float32)), "err", "finite number beyond the float32 range must be refused"},
		{cty.NumberFloatVal(math.MaxFloat32), c18T(new(float32)), "ok " + encGoFloat(math.MaxFloat32), "MaxFloat32 is representable"},
		// fixed defect: 1.5 into uint8 stored 1 with a nil error (math/big Float.Uint64 reports Exact)
		{cty.NumberFloatVal(1.5), c18T(new(uint8)), "err", "a fraction must be refused by an unsigned target"},
		{cty.NumberFloatVal(1.5), c18T(new(uint64)), "err", "a fraction must be refused by an unsigned target"},
		{cty.NumberFloatVal(255.5), c18T(new(uint)), "err", "a fraction must be refused by an unsigned target"},
		{cty.NumberIntVal(255), c18T(new(uint8)), "ok (i 255)", "255 is a uint8"},
		// fixed defect: tuple into big.Int / big.Float panicked (reflect Set on an unexported field)
		{cty.TupleVal([]cty.Value{cty.True, cty.EmptyTupleVal}), c18BigIntT, "err", "a tuple can not be decoded into big.Int"},
		{cty.TupleVal([]cty.Value{one, one, one, one, one, one, one}), c18BigFloatT, "err", "a tuple can not be decoded into big.Float"},
	}
	for _, g := range regs {
		impl, _, _, _, why := c18From(g.v, g.rt)
		vw, tw := encVal(g.v), encGoTy(g.rt)
		c18AddFrom(ctx, impl, vw, tw)
		ctx.Eval("regression "+vw+" "+tw, true)
		ctx.Tag("regression")
		if impl != g.want {
			ctx.Fail(Failure{Site: "regression", Sig: "repaired defect is back: " + g.what, What: g.what + " " + why, Input: vw + " " + tw,
				GoLit: fmt.Sprintf("var t %s; err := gocty.FromCtyValue(%#v, &t)", g.rt, g.v), Outcome: impl})
		}
	}
}

func runC18(ctx *Ctx) {
	runC18Regressions(ctx)
	runC18Numbers(ctx)
	runC18NumbersDeep(ctx)
	runC18RoundTrip(ctx)
	runC18Decode(ctx)
	runC18NearMiss(ctx)
	runC18Irregular(ctx)
	runC18IrregularValues(ctx)
	runC18D18b(ctx) // slice d18b (c18_d18b.go)
	ctx.res.Exhaustive = true
	ctx.res.Scope = fmt.Sprintf("every integer width/sign (10 types) x %d boundary numbers (2^k, k in {0,7,8,15,16,31,32,63,64}, both signs, +-1, +-0.5, huge, infinite, -0, low precision); "+
		"float32/float64 x %d boundary numbers (overflow thresholds and neighbours, subnormal halves, double-rounding ties, infinities); %d fixed probes x every target type of the family (%d types)",
		len(c18Boundaries()), len(c18FloatBoundaries()), 29, len(c18Family))
}

func init() {
	register("C18", "numbers: boundary values of each of the ten integer widths and both float widths (+-1, +-0.5, huge, infinite) decoded by the real FromCtyValue; "+
		"round trip: random Go values of a fixed family of 67 Go types (61 + 6 near-miss struct types) (all int widths, floats, string, bool, slices, arrays, string-keyed maps, pointers incl. **int, containers of pointers / of structs with pointer fields (every entry its own pointee; all-distinct three-entry values), "+
		"nested tagged structs, big.Int, big.Float, embedded cty.Value) through ImpliedType/ToCtyValue/FromCtyValue; decoding: generated cty values (unknown, null, marked, "+
		"shaped for the target or arbitrary, tuples positionally, sets of primitive members in set iteration order) into every target type, every unmarked decode judged at every depth against a verdict computed from the public type information (must be refused / must be accepted / not judged: c18_d18shape.go); near misses: for every struct reachable from a family type, objects with systematically varied attribute sets (stray, missing nilable, both, as many strays as missing, missing required, renamed by typo / case, stray holding null, names in NFD) on values that otherwise fit; boundary numbers into big.Int, big.Float and pointer targets; irregular Go types (unsupported kinds, untagged structs, unexported tagged fields, non-string map keys) judged on the real code without the model; ImpliedType on every family type and on its error shapes. non-trivial = a boundary number or a nested Go type; distinct = distinct wire strings of the case", runC18)
}
