//go:build verif

package main

// C16, additions of slice d16 (audit of C16, point 6 and the new theorems):
//
//   - d16.encint    the FAMILY and the WIDTH of every integer item that the real encoder wrote
//                   (Marshal sets UseCompactInts: the "compact" claim of marshal.go / unknown.go), against
//                   Msgpack.encInt / Msgpack.intSize — the item-level wire form drops the width;
//   - d16.numclass  the class of a number on the Text('f', -1) route (Msgpack.textRouteClass; the hypothesis
//                   `digitsExact` of C16.text_route_exact_partial / number_roundtrip_digits is a condition on the
//                   digit lists of the MODEL of math/big's roundShortest): here it is recomputed from the real
//                   math/big by exact rational arithmetic, for every number and every bound of every case;
//   - d16.unmarshaln the decoder on inputs whose strings are NOT in NFC, with the real normalisation as an
//                   oracle column (these inputs used to be skipped);
//   - d16.marshalc  Marshal on a value whose type does NOT conform to the constraint (the convert.Convert path);
//   - regression inputs of /repo bb6ac26 (a refinement map that describes a list of known length).

import (
	"fmt"
	"math/big"
	"sort"
	"strings"
	"unicode/utf8"

	"github.com/zclconf/go-cty/cty"
	"golang.org/x/text/unicode/norm"
)

// c16d16IntWidths: every integer item of real output, with the bytes it occupies.
func c16d16IntWidths(ctx *Ctx, it *mpItem) {
	switch it.kind {
	case "int":
		ctx.Add("d16.encint", fmt.Sprintf("i %d", 1+it.width), fmt.Sprintf("%d", it.i))
		ctx.Tag(fmt.Sprintf("intwidth:i%d", 1+it.width))
	case "uint":
		ctx.Add("d16.encint", fmt.Sprintf("u %d", 1+it.width), fmt.Sprintf("%d", it.u))
		ctx.Tag(fmt.Sprintf("intwidth:u%d", 1+it.width))
	}
	for _, x := range it.xs {
		c16d16IntWidths(ctx, x)
	}
}

// c16d16NumClass mirrors Msgpack.textRouteClass on the real big.Float: which encoding Marshal selects and, on
// the text route, whether the shortest text IS the exact decimal expansion (compared as rationals), at the
// number's own precision and at 512 bits.
func c16d16NumClass(f *big.Float) string {
	if f.IsInf() {
		return "not-text"
	}
	if _, acc := f.Int64(); acc == big.Exact {
		return "not-text"
	}
	if f.IsInt() {
		return "whole"
	}
	if _, acc := f.Float64(); acc == big.Exact {
		return "not-text"
	}
	rx, _ := f.Rat(nil)
	exactAt := func(g *big.Float) bool {
		r, ok := new(big.Rat).SetString(g.Text('f', -1))
		return ok && r.Cmp(rx) == 0
	}
	mp := f.MinPrec()
	e := f.MantExp(nil) - int(mp) // the number is m·2^e with m odd of mp bits
	long := -e > 248 || mp > 512
	if !long && exactAt(f) && exactAt(new(big.Float).SetPrec(512).Set(f)) {
		return "exact-text"
	}
	if long {
		return "long"
	}
	if f.Prec() >= 512 {
		return "prec512-short-text"
	}
	return "low-prec-short-text"
}

func c16d16Numbers(ctx *Ctx, v cty.Value) {
	seen := map[string]bool{}
	note := func(role string, f *big.Float) {
		w := cty.VerifNumWire(f)
		cls := c16d16NumClass(f)
		ctx.Tag("num-" + role + ":" + cls)
		if seen[w] {
			return
		}
		seen[w] = true
		ctx.Add("d16.numclass", cls, w)
	}
	c16Walk(v, 1, func(n cty.Value, _ int) {
		if n.IsMarked() {
			n, _ = n.Unmark()
		}
		if n.Type() != cty.Number || n.IsNull() {
			return
		}
		if n.IsKnown() {
			note("known", n.AsBigFloat())
			return
		}
		if lo, _ := n.Range().NumberLowerBound(); lo.IsKnown() {
			note("bound", lo.AsBigFloat())
		}
		if hi, _ := n.Range().NumberUpperBound(); hi.IsKnown() {
			note("bound", hi.AsBigFloat())
		}
	})
}

// c16d16NormTable: the oracle column of d16.unmarshaln — the real NFC form of every str item that is not
// normal.  ok=false: a bin item is not normal (its bytes may be a JSON document whose strings the table does
// not reach).
func c16d16NormTable(it *mpItem) (col string, n int, ok bool) {
	ok = true
	seen := map[string]bool{}
	var sb strings.Builder
	sb.WriteByte('(')
	var walk func(x *mpItem)
	walk = func(x *mpItem) {
		if (x.kind == "str" || x.kind == "bin") && utf8.Valid(x.s) && !norm.NFC.IsNormal(x.s) {
			if x.kind == "bin" {
				ok = false
			} else if !seen[string(x.s)] {
				seen[string(x.s)] = true
				if sb.Len() > 1 {
					sb.WriteByte(' ')
				}
				sb.WriteString("(" + encStr(string(x.s)) + " " + encStr(norm.NFC.String(string(x.s))) + ")")
				n++
			}
		}
		for _, y := range x.xs {
			walk(y)
		}
	}
	walk(it)
	sb.WriteByte(')')
	return sb.String(), n, ok
}

// c16d16BB6: /repo bb6ac26 — refinement maps that describe a list of known length are refused (they used to
// make the decoder build a known list of the announced length); the neighbours stay accepted.
func c16d16BB6(ctx *Ctx) int {
	ls := cty.List(cty.String)
	cases := []struct {
		it *mpItem
		ty cty.Type
	}{
		{mpExt(12, 3, []*mpItem{mpInt(1), mpBool(false), mpInt(5), mpInt(2), mpInt(6), mpInt(2)}, nil), ls},
		{mpExt(12, 3, []*mpItem{mpInt(5), mpInt(2), mpInt(6), mpInt(2), mpInt(1), mpBool(false)}, nil), ls},
		{mpExt(12, 3, []*mpItem{mpInt(5), mpInt(1), mpInt(5), mpInt(3), mpInt(6), mpInt(3)}, nil), ls}, // nullness unknown: stays unknown
		{mpExt(12, 2, []*mpItem{mpInt(5), mpInt(2), mpInt(6), mpInt(2)}, nil), ls},
		{mpExt(12, 3, []*mpItem{mpInt(1), mpBool(false), mpInt(5), mpInt(1), mpInt(6), mpInt(1)}, nil), ls}, // the smallest: one element
		{mpExt(12, 3, []*mpItem{mpInt(1), mpBool(false), mpInt(5), mpInt(0), mpInt(6), mpInt(0)}, nil), ls},           // the empty list: minLen > 0 is false
		{mpExt(12, 3, []*mpItem{mpInt(1), mpBool(false), mpInt(5), mpInt(2), mpInt(6), mpInt(3)}, nil), ls},           // bounds differ
		{mpExt(12, 3, []*mpItem{mpInt(1), mpBool(false), mpInt(5), mpInt(2), mpInt(6), mpInt(2)}, nil), cty.Set(cty.String)}, // not a list
		{mpExt(12, 3, []*mpItem{mpInt(1), mpBool(false), mpInt(5), mpInt(2), mpInt(6), mpInt(2)}, nil), cty.Map(cty.String)},
		{mpExt(12, 4, []*mpItem{mpInt(1), mpBool(false), mpInt(5), mpInt(1), mpInt(5), mpInt(4), mpInt(6), mpInt(4)}, nil), ls}, // the larger lower bound counts
		{mpExt(12, 4, []*mpItem{mpInt(1), mpBool(false), mpInt(6), mpInt(9), mpInt(6), mpInt(4), mpInt(5), mpInt(4)}, nil), ls}, // the smaller upper bound counts
		{mpExt(12, 3, []*mpItem{mpInt(1), mpBool(false), mpInt(5), mpUint(4194304), mpInt(6), mpUint(4194304)}, nil), ls},     // the witness of the finding (2^22 elements)
		{mpArr(mpBin([]byte(`["list","string"]`)), mpExt(12, 3, []*mpItem{mpInt(1), mpBool(false), mpInt(5), mpInt(2), mpInt(6), mpInt(2)}, nil)), cty.DynamicPseudoType},
		{mpArr(mpExt(12, 3, []*mpItem{mpInt(1), mpBool(false), mpInt(5), mpInt(2), mpInt(6), mpInt(2)}, nil)), cty.Tuple([]cty.Type{ls})},
	}
	for _, c := range cases {
		c16Decode(ctx, c.it, c.ty, "bb6ac26")
	}
	return len(cases)
}

// c16d16NFCItems: decoder inputs with strings that are not in NFC, at every place where the decoder takes a
// string (known strings, prefixes, map keys, attribute names).
func c16d16NFCItems(ctx *Ctx) {
	nn := []string{"é", "Å", "가", "ạ̇", "Å", "xﬁ", "̈́"}
	objA := cty.Object(map[string]cty.Type{"é": cty.String})
	for _, s := range nn {
		c16Decode(ctx, mpStr(s), cty.String, "nfc")
		c16Decode(ctx, mpArr(mpStr(s), mpStr("b"+s)), cty.List(cty.String), "nfc")
		c16Decode(ctx, mpArr(mpStr(s), mpStr(norm.NFC.String(s))), cty.Set(cty.String), "nfc")
		c16Decode(ctx, mpExt(12, 1, []*mpItem{mpInt(2), mpStr("ab" + s)}, nil), cty.String, "nfc")
		c16Decode(ctx, mpExt(12, 2, []*mpItem{mpInt(1), mpBool(false), mpInt(2), mpStr(s)}, nil), cty.String, "nfc")
		c16Decode(ctx, mpMap(mpStr(s), mpStr("v")), cty.Map(cty.String), "nfc")
		c16Decode(ctx, mpMap(mpStr(s), mpStr(s)), objA, "nfc")
		c16Decode(ctx, mpMap(mpStr("é"), mpStr(s)), objA, "nfc")
		c16Decode(ctx, mpArr(mpBin([]byte(`"string"`)), mpStr(s)), cty.DynamicPseudoType, "nfc")
	}
}

// c16d16NonConforming: values whose type does NOT conform to the constraint — Marshal converts first
// (convert.Convert), then encodes: compared with Msgpack.marshalC (d16.marshalc).
func c16d16NonConforming(ctx *Ctx) {
	r := ctx.R
	prims := []cty.Type{cty.String, cty.Number, cty.Bool}
	hand := []struct {
		v  cty.Value
		ct cty.Type
	}{
		// the witness of the finding marked-rejected / accepted:mark-only-in-part-dropped-by-conversion-to-constraint
		{cty.ObjectVal(map[string]cty.Value{"zz": cty.MapVal(map[string]cty.Value{"b": cty.False.Mark("m1"), "zz": cty.True})}), cty.EmptyObject},
		{cty.ObjectVal(map[string]cty.Value{"a": cty.StringVal("x"), "b": cty.StringVal("s").Mark("m1")}), cty.Object(map[string]cty.Type{"a": cty.String})},
		{cty.ObjectVal(map[string]cty.Value{"a": cty.StringVal("x").Mark("m1"), "b": cty.StringVal("s")}), cty.Object(map[string]cty.Type{"a": cty.String})}, // the mark survives: refused
		{cty.NumberIntVal(5), cty.String},
		{cty.StringVal("12.5"), cty.Number},
		{cty.StringVal("x"), cty.Number},
		{cty.True, cty.String},
		{cty.StringVal("true"), cty.Bool},
		{cty.TupleVal([]cty.Value{cty.StringVal("a"), cty.NumberIntVal(1)}), cty.List(cty.String)},
		{cty.TupleVal([]cty.Value{cty.StringVal("a"), cty.UnknownVal(cty.Number)}), cty.Set(cty.String)},
		{cty.ObjectVal(map[string]cty.Value{"a": cty.NumberIntVal(1), "b": cty.NullVal(cty.Number)}), cty.Map(cty.String)},
		{cty.MapVal(map[string]cty.Value{"a": cty.NumberIntVal(1)}), cty.Object(map[string]cty.Type{"a": cty.String})},
		{cty.ListVal([]cty.Value{cty.NumberIntVal(1), cty.NumberIntVal(1)}), cty.Set(cty.DynamicPseudoType)},
		{cty.ListVal([]cty.Value{cty.StringVal("a").Mark("m")}), cty.Set(cty.String)},
		{cty.StringVal("a").Mark("m"), cty.Number},
		{cty.UnknownVal(cty.Number).RefineNotNull(), cty.String},
		{cty.UnknownVal(cty.List(cty.Number)).Refine().CollectionLengthLowerBound(2).NewValue(), cty.Set(cty.String)},
		{cty.NullVal(cty.Number), cty.String},
		{cty.EmptyObjectVal, cty.Map(cty.String)},
		{cty.EmptyTupleVal, cty.List(cty.DynamicPseudoType)},
		{cty.ObjectVal(map[string]cty.Value{"a": cty.StringVal("x")}), cty.ObjectWithOptionalAttrs(map[string]cty.Type{"a": cty.String, "b": cty.Number}, []string{"b"})},
	}
	for _, h := range hand {
		c16Case(ctx, h.v, h.ct, "nonconforming-hand")
	}
	n := ctx.N(500, 10000)
	for i := 0; i < n; i++ {
		t := genTy(r, 2, TyOpts{})
		o := c16Opts{unknown: r.Intn(3) == 0, null: r.Intn(3) == 0, marks: r.Intn(10) == 0}
		v := c16Val(ctx, t, 2, o)
		var ct cty.Type
		switch {
		case t.IsPrimitiveType() && r.Intn(2) == 0:
			ct = prims[r.Intn(3)]
		case r.Intn(6) == 0:
			ct = genTy(r, 2, TyOpts{Dyn: true})
		default:
			ct = mutateTy(r, t, TyOpts{Dyn: r.Intn(2) == 0, Opt: r.Intn(4) == 0})
			if r.Intn(3) == 0 {
				ct = mutateTy(r, ct, TyOpts{Dyn: true})
			}
		}
		vu, _ := v.UnmarkDeep()
		if len(vu.Type().TestConformance(ct)) == 0 {
			ctx.Tag("nonconforming-gen:conforms-after-all")
			continue
		}
		c16Case(ctx, v, ct, "nonconforming")
	}
}

// c16d16WireSorted: the wire form of an item tree with the members of EVERY array sorted by their own print
// (the driver's `d16.marshalc-sets` prints the same way): a comparison up to the order of set members.
func c16d16WireSorted(it *mpItem) string {
	switch it.kind {
	case "arr":
		ms := make([]string, len(it.xs))
		for i, x := range it.xs {
			ms[i] = c16d16WireSorted(x)
		}
		sort.Strings(ms)
		return "(arr" + strings.Repeat(" ", minInt(1, len(ms))) + strings.Join(ms, " ") + ")"
	case "map":
		var sb strings.Builder
		sb.WriteString("(map")
		for k := 0; k+1 < len(it.xs); k += 2 {
			sb.WriteString(" (" + c16d16WireSorted(it.xs[k]) + " " + c16d16WireSorted(it.xs[k+1]) + ")")
		}
		sb.WriteByte(')')
		return sb.String()
	}
	return it.wire()
}

// c16d16InexactBound: as c16InexactText, but only for BOUNDS of unknown numbers (the root cause of a decode
// error about bounds cannot be a known number elsewhere in the value).
func c16d16InexactBound(v cty.Value) string {
	cls := ""
	c16Walk(v, 1, func(n cty.Value, _ int) {
		if n.IsMarked() {
			n, _ = n.Unmark()
		}
		if n.Type() != cty.Number || n.IsNull() || n.IsKnown() {
			return
		}
		var bs []cty.Value
		if lo, _ := n.Range().NumberLowerBound(); lo.IsKnown() {
			bs = append(bs, lo)
		}
		if hi, _ := n.Range().NumberUpperBound(); hi.IsKnown() {
			bs = append(bs, hi)
		}
		for _, b := range bs {
			if s := c16InexactText(b); s != "" && (cls == "" || s == "whole-wider-than-512-bits") {
				cls = s
			}
		}
	})
	return cls
}
