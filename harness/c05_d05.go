package main

// C05, additions of slice d05:
//
//  * the BRIDGE: every builder case whose numbers (receiver and arguments) are all integers or infinities is
//    also diffed against the model under the total exact oracle (`rfn.runi`): there Props/C05.lean proves the
//    code's text-based number equality, the partial oracle and the exact oracle give the same run
//    (`C05.run_code_eq_exact`), so the `[ExactOracle]` theorems are about what this line compares;
//    c05d05Integers generates such cases with freely mixed precisions (64-bit, float64, 100-bit, 512-bit);
//  * contradictory nullness within ONE builder chain (`Null() … NotNull()` and the mirror image) on every kind
//    of receiver, with accepted calls in between (`C05.null_then_notNull_panics`);
//  * prefixes WITHOUT any normalisation boundary (`LastBoundary = -1`): sequences of combining marks, Hangul
//    vowel/trailing jamo and other characters that combine backwards; the two laws of `D05.ExtNB` are probed in
//    c05PrefixCase.

import (
	"fmt"
	"math"
	"math/big"

	"github.com/zclconf/go-cty/cty"
)

func c05IntLike(f *big.Float) bool { return f == nil || f.IsInf() || f.IsInt() }

// c05TextFree mirrors D05.valueOk intLike / D05.callOk intLike of the model.
func c05TextFree(recv c05Recv, calls []c05Call) bool {
	u, _ := recv.v.Unmark()
	if u.Type() == cty.Number && !u.IsNull() {
		if u.IsKnown() {
			if !c05IntLike(u.AsBigFloat()) {
				return false
			}
		} else {
			r := u.Range()
			lo, _ := r.NumberLowerBound()
			hi, _ := r.NumberUpperBound()
			for _, b := range []cty.Value{lo, hi} {
				if b.IsKnown() && !b.IsNull() && !c05IntLike(b.AsBigFloat()) {
					return false
				}
			}
		}
	}
	for _, c := range calls {
		switch c.k {
		case "lo", "hi":
			if !c05IntLike(c.a.f()) {
				return false
			}
		case "ri":
			if !c05IntLike(c.a.f()) || !c05IntLike(c.b.f()) {
				return false
			}
		}
	}
	return true
}

// integers held at several precisions (the same integer at two precisions is the interesting tie)
func c05d05IntPool() []cty.Value {
	var pool []cty.Value
	for _, n := range []int64{-3, -1, 0, 1, 2, 3, 7, 1 << 53, math.MaxInt64, math.MinInt64} {
		pool = append(pool, cty.NumberIntVal(n))                                      // 64 bits
		pool = append(pool, cty.NumberFloatVal(float64(n)))                           // 53 bits (rounds the two extremes: still integers)
		pool = append(pool, cty.NumberVal(new(big.Float).SetPrec(100).SetInt64(n)))   // 100 bits
		pool = append(pool, cty.MustParseNumberVal(fmt.Sprint(n)))                    // 512 bits
		pool = append(pool, cty.NumberVal(new(big.Float).SetPrec(8).SetInt64(n%100))) // 8 bits
	}
	pool = append(pool, cty.MustParseNumberVal("1e30"), cty.MustParseNumberVal("-1e30"),
		cty.MustParseNumberVal("340282366920938463463374607431768211456"),
		cty.NumberFloatVal(math.Inf(1)), cty.NumberFloatVal(math.Inf(-1)), cty.PositiveInfinity, cty.NegativeInfinity)
	return pool
}

func c05d05Integers(ctx *Ctx, j *c05Judge) {
	pool := c05d05IntPool()
	r := ctx.R
	pick := func() c05Arg { return c05Known(pool[r.Intn(len(pool))]) }
	randCall := func() c05Call {
		switch r.Intn(9) {
		case 0:
			return c05Call{k: "nn"}
		case 1:
			if r.Intn(3) == 0 {
				return c05Call{k: "nl"}
			}
			return c05Call{k: "nn"}
		case 2:
			return c05Call{k: "ri", a: pick(), b: pick()}
		case 3, 4, 5:
			return c05Call{k: "lo", a: pick(), incl: r.Intn(2) == 0}
		default:
			return c05Call{k: "hi", a: pick(), incl: r.Intn(2) == 0}
		}
	}
	n := ctx.N(1500, 40000)
	for i := 0; i < n; i++ {
		var recv c05Recv
		switch r.Intn(4) {
		case 0:
			recv = c05Refined(cty.Number, "cty.Number")
		case 1:
			// an already refined receiver with integer bounds of other precisions
			a, b := pool[r.Intn(len(pool))], pool[r.Intn(len(pool))]
			if a.AsBigFloat().Cmp(b.AsBigFloat()) >= 0 || a.AsBigFloat().IsInf() || b.AsBigFloat().IsInf() {
				recv = c05Refined(cty.Number, "cty.Number", c05Call{k: "lo", a: c05Known(pool[0]), incl: true})
			} else {
				recv = c05Refined(cty.Number, "cty.Number", c05Call{k: "lo", a: c05Known(a), incl: r.Intn(2) == 0}, c05Call{k: "hi", a: c05Known(b), incl: r.Intn(2) == 0})
			}
		case 2:
			recv = c05KnownRecv(pool[r.Intn(len(pool))])
		default:
			recv = c05Refined(cty.Number, "cty.Number").marked("m")
		}
		var calls []c05Call
		for k := 1 + r.Intn(5); k > 0; k-- {
			calls = append(calls, randCall())
		}
		if !c05TextFree(recv, calls) {
			panic("c05d05Integers: generated a case that is not text-free")
		}
		ctx.Tag("d05:integers-mixed-precision")
		j.run(recv, calls)
	}
}

// c05d05Chains: Null() … NotNull() and NotNull() … Null() within one chain, on every kind of receiver.
func c05d05Chains(ctx *Ctx, j *c05Judge, scope *[]string) {
	nn, nl := c05Call{k: "nn"}, c05Call{k: "nl"}
	type rk struct {
		recv c05Recv
		mids [][]c05Call
	}
	numMids := [][]c05Call{{}, {{k: "lo", a: c05I(0), incl: true}}, {{k: "hi", a: c05I(5), incl: false}, {k: "lo", a: c05I(1), incl: false}}, {{k: "ri", a: c05I(0), b: c05I(0)}}}
	lenMids := [][]c05Call{{}, {{k: "ll", n: 1}}, {{k: "lu", n: 3}, {k: "ll", n: 1}}, {{k: "cl", n: 0}}, {{k: "cl", n: 2}}}
	strMids := [][]c05Call{{}, {{k: "sf", s: "ab"}}, {{k: "sp", s: "a-b"}, {k: "sf", s: "a"}}}
	noMids := [][]c05Call{{}}
	obj := cty.Object(map[string]cty.Type{"a": cty.String})
	cases := []rk{
		{c05Refined(cty.Number, "cty.Number"), numMids},
		{c05Refined(cty.Number, "cty.Number", c05Call{k: "lo", a: c05I(0), incl: true}), numMids},
		{c05Refined(cty.Number, "cty.Number").marked("m"), numMids},
		{c05Refined(cty.List(cty.String), "cty.List(cty.String)"), lenMids},
		{c05Refined(cty.Set(cty.Number), "cty.Set(cty.Number)"), lenMids},
		{c05Refined(cty.Map(cty.Bool), "cty.Map(cty.Bool)", c05Call{k: "ll", n: 1}), lenMids},
		{c05Refined(cty.String, "cty.String"), strMids},
		{c05Refined(cty.String, "cty.String", c05Call{k: "sf", s: "a"}), strMids},
		{c05Refined(cty.Bool, "cty.Bool"), noMids},
		{c05Refined(obj, `cty.Object(map[string]cty.Type{"a": cty.String})`), noMids},
		{c05Refined(cty.EmptyTuple, "cty.EmptyTuple"), noMids},
	}
	cnt := 0
	for _, c := range cases {
		for _, mid := range c.mids {
			for _, first := range []c05Call{nl, nn} {
				last := nn
				if first.k == "nn" {
					last = nl
				}
				calls := append(append([]c05Call{first}, mid...), last)
				// the chain before the contradicting call must be judged on its own merits by j.run; here:
				// if everything before the last call is accepted, the last call must panic
				_, pBefore, _ := c05Run(c.recv.v, calls[:len(calls)-1])
				_, pAll, why := c05Run(c.recv.v, calls)
				ctx.Tag("d05:nullness-chain:" + first.k + "-then-" + last.k)
				if pBefore == -1 {
					ok := pAll == len(calls)-1
					ctx.Eval("nullness-chain "+encVal(c.recv.v)+" "+c05Wires(calls), true)
					if !ok {
						j.fail("rejects-contradiction", "nullness-within-one-chain-accepted:"+first.k+"-then-"+last.k,
							"contradictory nullness stated within one builder chain was accepted", c.recv, calls, fmt.Sprintf("panicAt=%d %s", pAll, why))
					}
				}
				j.run(c.recv, calls)
				cnt++
			}
		}
	}
	*scope = append(*scope, fmt.Sprintf("nullness within one chain: Null()…NotNull() and NotNull()…Null() with 0-2 accepted calls in between on %d receivers of every kind (%d chains)", len(cases), cnt))
}

// c05d05NoBoundary: prefixes made only of characters that are not normalisation boundaries.
func c05d05NoBoundary(ctx *Ctx, scope *[]string) {
	// combining marks of several classes, Hangul vowel and trailing jamo, characters that compose backwards
	ns := []string{"́", "̧", "̴", "ᅡ", "ᆨ", "া", "ཱ", "ා", "़", "゙", "ٓ", "ᅵ"}
	conts := append(append([]string{}, strAtoms...), ns...)
	n := 0
	for _, a := range ns {
		c05PrefixCase(ctx, a, conts)
		n++
		for _, b := range ns {
			c05PrefixCase(ctx, a+b, conts)
			n++
		}
	}
	*scope = append(*scope, fmt.Sprintf("prefixes without a normalisation boundary: all %d sequences of <=2 of %d non-boundary characters x %d single-atom continuations", n, len(ns), len(conts)))
	nr := ctx.N(400, 30000)
	for i := 0; i < nr; i++ {
		p := ""
		for k := 3 + ctx.R.Intn(3); k > 0; k-- {
			p += ns[ctx.R.Intn(len(ns))]
		}
		var cs []string
		for k := 0; k < 6; k++ {
			c := conts[ctx.R.Intn(len(conts))]
			if ctx.R.Intn(2) == 0 {
				c += conts[ctx.R.Intn(len(conts))]
			}
			cs = append(cs, c)
		}
		c05PrefixCase(ctx, p, cs)
	}
}

// c05d05With: the same receiver and calls through the other entry points of unknown_refinement.go:
// v.RefineWith(refiners...) with the calls split over 0..n refiner callbacks (one of which may return a builder
// other than the one it was given), and v.RefineNotNull().  Correspondence ops rfn.with / rfn.nn.
func c05d05With(ctx *Ctx, recv c05Recv, calls []c05Call) {
	r := ctx.R
	// split the calls into consecutive groups (possibly empty ones)
	var groups [][]c05Call
	rest := calls
	if (len(calls) > 0 || r.Intn(3) > 0) && r.Intn(10) != 0 { // else: RefineWith() without any refiner
		for {
			k := 0
			if len(rest) > 0 {
				k = r.Intn(len(rest) + 1)
			}
			groups = append(groups, rest[:k])
			rest = rest[k:]
			if len(rest) == 0 && r.Intn(2) == 0 {
				break
			}
			if len(groups) > 6 {
				groups[len(groups)-1] = append(groups[len(groups)-1], rest...)
				break
			}
		}
	}
	other := -1
	if len(groups) > 0 && r.Intn(8) == 0 {
		other = r.Intn(len(groups))
	}
	var refiners []func(*cty.RefinementBuilder) *cty.RefinementBuilder
	ws := make([]string, len(groups))
	for i, g := range groups {
		g, i := g, i
		refiners = append(refiners, func(b *cty.RefinementBuilder) *cty.RefinementBuilder {
			for _, c := range g {
				c.apply(b)
			}
			if i == other {
				return cty.UnknownVal(cty.Bool).Refine()
			}
			return b
		})
		ws[i] = "(" + encBool(i != other) + " " + c05Wires(g) + ")"
	}
	var res cty.Value
	impl := "panic"
	if p, _ := try(func() { res = recv.v.RefineWith(refiners...) }); !p {
		impl = "ok " + encVal(res) + " " + c05Observers(res)
	}
	ctx.Add("rfn.with", impl, encVal(recv.v), "("+joinSp(ws)+")")
	switch {
	case len(groups) == 0:
		ctx.Tag("d05:refinewith:no-refiner")
	case other >= 0:
		ctx.Tag("d05:refinewith:different-builder")
		if impl != "panic" {
			ctx.Fail(Failure{Site: "refinewith", Sig: "different-builder-accepted", What: "RefineWith accepted a refiner that returned a different builder",
				Input: encVal(recv.v) + " (" + joinSp(ws) + ")", GoLit: recv.lit + ".RefineWith(/* refiner " + fmt.Sprint(other) + " returns another builder */)", Outcome: impl})
		}
	default:
		ctx.Tag(fmt.Sprintf("d05:refinewith:%d-refiners", len(groups)))
		// C05.refineWith_is_refine on the real code: the same outcome as the builder chain
		res2, panicAt, _ := c05Run(recv.v, calls)
		want := "panic"
		if panicAt == -1 {
			want = "ok " + encVal(res2) + " " + c05Observers(res2)
		}
		ctx.Eval("refinewith "+encVal(recv.v)+" "+joinSp(ws), len(calls) > 0)
		if want != impl {
			ctx.Fail(Failure{Site: "refinewith", Sig: "differs-from-builder-chain", What: "RefineWith(refiners...) differs from Refine().<the same calls>.NewValue()",
				Input: encVal(recv.v) + " (" + joinSp(ws) + ")", GoLit: c05Lit(recv.lit, calls) + " // vs RefineWith over the same calls", Outcome: impl + " vs " + want})
		}
	}
	if r.Intn(4) == 0 {
		implNN := "panic"
		if p, _ := try(func() { res = recv.v.RefineNotNull() }); !p {
			implNN = "ok " + encVal(res) + " " + c05Observers(res)
		}
		ctx.Add("rfn.nn", implNN, encVal(recv.v))
	}
}

func joinSp(ws []string) string {
	s := ""
	for i, w := range ws {
		if i > 0 {
			s += " "
		}
		s += w
	}
	return s
}

// c05d05RawUnknown: receivers that are unknown values WITHOUT any refinement struct (cty.UnknownVal(t) itself; the
// receivers c05Refined builds have been through Refine().NewValue() once and carry an empty refinement), so that
// the fresh-builder switch of Value.Refine is exercised on unknown values, and RefineWith() without refiners is
// seen to hand back the receiver itself.
func c05d05RawUnknown(ctx *Ctx, j *c05Judge, scope *[]string) {
	r := ctx.R
	obj := cty.Object(map[string]cty.Type{"a": cty.String})
	type tk struct {
		t    cty.Type
		lit  string
		kind string
	}
	tys := []tk{{cty.Number, "cty.Number", "num"}, {cty.String, "cty.String", "str"}, {cty.List(cty.String), "cty.List(cty.String)", "len"},
		{cty.Set(cty.Number), "cty.Set(cty.Number)", "len"}, {cty.Map(cty.Bool), "cty.Map(cty.Bool)", "len"}, {cty.Bool, "cty.Bool", "other"},
		{obj, `cty.Object(map[string]cty.Type{"a": cty.String})`, "other"}, {cty.EmptyTuple, "cty.EmptyTuple", "other"}}
	nums := []cty.Value{cty.NumberIntVal(0), cty.NumberIntVal(2), cty.NumberFloatVal(0.5), cty.MustParseNumberVal("2"), cty.NumberIntVal(-1)}
	call := func(kind string) c05Call {
		switch r.Intn(5) {
		case 0:
			return c05Call{k: "nn"}
		case 1:
			if r.Intn(2) == 0 {
				return c05Call{k: "nl"}
			}
		}
		switch kind {
		case "num":
			a := c05Known(nums[r.Intn(len(nums))])
			switch r.Intn(3) {
			case 0:
				return c05Call{k: "lo", a: a, incl: r.Intn(2) == 0}
			case 1:
				return c05Call{k: "hi", a: a, incl: r.Intn(2) == 0}
			}
			return c05Call{k: "ri", a: a, b: c05Known(nums[r.Intn(len(nums))])}
		case "len":
			return c05Call{k: []string{"ll", "lu", "cl"}[r.Intn(3)], n: r.Intn(4)}
		case "str":
			return c05Call{k: []string{"sp", "sf"}[r.Intn(2)], s: []string{"", "a", "a-", "ab", "é"}[r.Intn(5)]}
		}
		return c05Call{k: "nn"}
	}
	n := ctx.N(60, 2000)
	cnt := 0
	for _, t := range tys {
		recv := c05Recv{v: cty.UnknownVal(t.t), lit: "cty.UnknownVal(" + t.lit + ")", tag: "raw-unknown"}
		for i := 0; i < n; i++ {
			var calls []c05Call
			for k := r.Intn(4); k > 0; k-- {
				calls = append(calls, call(t.kind))
			}
			rc := recv
			if r.Intn(6) == 0 {
				rc = recv.marked("m")
			}
			j.run(rc, calls)
			c05d05With(ctx, rc, calls)
			cnt++
		}
	}
	*scope = append(*scope, fmt.Sprintf("raw unknown receivers (no refinement struct) of 8 types: %d random chains of length<=3, each also through RefineWith", cnt))
}
