package main

// C10, the remaining methods of function.Function: Proxy, Params, VarParam,
// WithNewDescriptions.  Each is (a) compared with the Lean model (ops fn.proxy,
// fn.params, fn.redesc) and (b) judged directly: Proxy()(args...) behaves as
// Call(args); Params()/VarParam() report the declared parameters and hand out
// copies; WithNewDescriptions changes descriptions only — the new function runs
// the same protocol — and panics exactly on a wrong number of descriptions.

import (
	"fmt"
	"strings"

	"github.com/zclconf/go-cty/cty"
	"github.com/zclconf/go-cty/cty/function"
)

func c10ParamOf(p function.Parameter) c10Param {
	return c10Param{ty: p.Type, n: p.AllowNull, u: p.AllowUnknown, d: p.AllowDynamicType, m: p.AllowMarked}
}

func c10ParamsWire(ps []function.Parameter, vp *function.Parameter) string {
	ws := make([]string, len(ps))
	for i, p := range ps {
		ws[i] = c10ParamOf(p).wire()
	}
	v := "-"
	if vp != nil {
		v = c10ParamOf(*vp).wire()
	}
	return "(" + strings.Join(ws, " ") + ") " + v
}

// c10Extras runs the extra entry points on case c; callOutcome is the canonical answer
// (outcome + trace) Call gave for the same case.
func c10Extras(ctx *Ctx, c *c10Case, sw []string, argsW, key, callAnswer string) {
	fail := func(site, sig, what, outc string) {
		ctx.Fail(Failure{Site: site, Sig: sig, What: what, Input: key, GoLit: c.goLit(), Outcome: outc})
	}
	run := func(f function.Function, o *c10Obs, viaProxy bool) string {
		var val cty.Value
		var err error
		panicked, _ := try(func() {
			if viaProxy {
				val, err = f.Proxy()(c.args...)
			} else {
				val, err = f.Call(c.args)
			}
		})
		okStr := ""
		if !panicked && err == nil {
			okStr = encVal(val)
		}
		return c10Answer(c10Outcome(panicked, err, okStr), o)
	}

	// ---- Proxy
	{
		var o c10Obs
		f := c.build(&o)
		ans := run(f, &o, true)
		ctx.Add("fn.proxy", ans, sw[0], sw[1], sw[2], sw[3], c.implWire(), argsW)
		if ans != callAnswer {
			fail("proxy-is-call", "proxy-differs", "Proxy()(args...) behaved differently from Call(args)", ans+"  vs  "+callAnswer)
		}
	}

	// ---- Params / VarParam
	{
		var o c10Obs
		f := c.build(&o)
		ps, vp := f.Params(), f.VarParam()
		got := c10ParamsWire(ps, vp)
		ctx.Add("fn.params", got, sw[0], sw[1])
		if len(ps) != len(c.params) || (vp == nil) != (c.vp == nil) {
			fail("params-report-spec", "params-shape", "Params()/VarParam() do not report the declared parameters", got)
		}
		// the caller gets copies: scribbling on them must not change the function
		for i := range ps {
			ps[i].AllowNull, ps[i].AllowUnknown, ps[i].AllowDynamicType, ps[i].AllowMarked = !ps[i].AllowNull, !ps[i].AllowUnknown, !ps[i].AllowDynamicType, !ps[i].AllowMarked
			ps[i].Type = cty.EmptyTuple
		}
		if vp != nil {
			vp.AllowNull, vp.AllowUnknown, vp.AllowDynamicType, vp.AllowMarked = !vp.AllowNull, !vp.AllowUnknown, !vp.AllowDynamicType, !vp.AllowMarked
			vp.Type = cty.EmptyTuple
		}
		if again := c10ParamsWire(f.Params(), f.VarParam()); again != got {
			fail("params-report-spec", "params-aliased", "writing to the result of Params()/VarParam() changed the function", again+"  vs  "+got)
		}
		if ans := run(f, &o, false); ans != callAnswer {
			fail("params-report-spec", "params-aliased-call", "writing to the result of Params()/VarParam() changed what Call does", ans+"  vs  "+callAnswer)
		}
	}

	// ---- WithNewDescriptions: every count of descriptions from 0 to len(params)+2
	for n := 0; n <= len(c.params)+2; n++ {
		var o c10Obs
		f := c.build(&o)
		descs := make([]string, n)
		for i := range descs {
			descs[i] = fmt.Sprintf("new description %d", i)
		}
		var f2 function.Function
		panicked, _ := try(func() { f2 = f.WithNewDescriptions("new function description", descs) })
		accepted := n == len(c.params) || (c.vp != nil && n == len(c.params)+1)
		ans := "panic |"
		if !panicked {
			ans = run(f2, &o, false)
		}
		ctx.Add("fn.redesc", ans, sw[0], sw[1], sw[2], sw[3], c.implWire(), argsW, fmt.Sprint(n))
		switch {
		case panicked && accepted:
			fail("redescribe-same-protocol", "redesc-panics", "WithNewDescriptions panicked on an admissible number of descriptions", fmt.Sprint(n))
		case !panicked && !accepted:
			fail("redescribe-same-protocol", "redesc-accepts-wrong-count", "WithNewDescriptions accepted a wrong number of descriptions", fmt.Sprint(n))
		case !panicked:
			if ans != callAnswer {
				fail("redescribe-same-protocol", "redesc-differs", "the re-described function behaves differently from the original", ans+"  vs  "+callAnswer)
			}
			if got, want := c10ParamsWire(f2.Params(), f2.VarParam()), c10ParamsWire(f.Params(), f.VarParam()); got != want {
				fail("redescribe-same-protocol", "redesc-params", "the re-described function declares different parameters", got+"  vs  "+want)
			}
			ps := f2.Params()
			for i := range ps {
				if ps[i].Description != descs[i] {
					fail("redescribe-same-protocol", "redesc-desc", "a positional parameter did not get its new description", ps[i].Description)
				}
			}
			if f2.Description() != "new function description" {
				fail("redescribe-same-protocol", "redesc-desc", "the function did not get its new description", f2.Description())
			}
			// the receiver is unchanged
			for _, p := range f.Params() {
				if p.Description != "" {
					fail("redescribe-same-protocol", "redesc-mutates-receiver", "WithNewDescriptions changed the receiver", p.Description)
				}
			}
		}
	}
}
