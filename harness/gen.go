package main

import (
	"math/rand"
	"reflect"

	"github.com/zclconf/go-cty/cty"
)

var capsuleTypes = []cty.Type{
	cty.Capsule("capA", reflect.TypeOf(0)),
	cty.Capsule("capB", reflect.TypeOf(0)), // same name shape, different identity
}

var attrNames = []string{"a", "b", "c", "d", "é", "zz", "m", "n", "Ab"}

type TyOpts struct {
	Dyn      bool // allow DynamicPseudoType
	Opt      bool // allow optional attributes
	Capsule  bool
	MaxWidth int
}

// genTy generates a type of at most the given depth.
func genTy(r *rand.Rand, depth int, o TyOpts) cty.Type {
	if o.MaxWidth == 0 {
		o.MaxWidth = 3
	}
	n := 10
	if depth <= 0 {
		n = 5
	}
	switch k := r.Intn(n); k {
	case 0:
		return cty.Bool
	case 1:
		return cty.Number
	case 2:
		return cty.String
	case 3:
		if o.Dyn {
			return cty.DynamicPseudoType
		}
		return cty.String
	case 4:
		if o.Capsule && r.Intn(3) == 0 {
			return capsuleTypes[r.Intn(len(capsuleTypes))]
		}
		return cty.Number
	case 5:
		return cty.List(genTy(r, depth-1, o))
	case 6:
		return cty.Set(genTy(r, depth-1, o))
	case 7:
		return cty.Map(genTy(r, depth-1, o))
	case 8:
		w := genWidth(r, o)
		es := make([]cty.Type, w)
		for i := range es {
			es[i] = genTy(r, depth-1, o)
		}
		return cty.Tuple(es)
	default:
		w := genWidth(r, o)
		atys := map[string]cty.Type{}
		var opts []string
		for i := 0; i < w; i++ {
			name := attrNames[r.Intn(len(attrNames))]
			atys[name] = genTy(r, depth-1, o)
		}
		if o.Opt {
			for k := range sortedKeys(atys) {
				_ = k
			}
			for _, k := range sortedKeys(atys) {
				if r.Intn(3) == 0 {
					opts = append(opts, k)
				}
			}
		}
		if len(opts) > 0 {
			return cty.ObjectWithOptionalAttrs(atys, opts)
		}
		return cty.Object(atys)
	}
}

// genWidth picks a tuple/object width: usually 0..MaxWidth, one time in ten
// wider (up to MaxWidth+5) so that code treating late positions differently
// from early ones is exercised.
func genWidth(r *rand.Rand, o TyOpts) int {
	if r.Intn(10) == 0 {
		return o.MaxWidth + 1 + r.Intn(5)
	}
	return r.Intn(o.MaxWidth + 1)
}

func sortedKeys[V any](m map[string]V) []string {
	ks := make([]string, 0, len(m))
	for k := range m {
		ks = append(ks, k)
	}
	sortStrings(ks)
	return ks
}

// mutateTy returns a type differing from t in (roughly) one position.
func mutateTy(r *rand.Rand, t cty.Type, o TyOpts) cty.Type {
	switch {
	case t.IsListType() || t.IsSetType() || t.IsMapType():
		if r.Intn(3) == 0 {
			// change the kind, keep the element
			switch r.Intn(3) {
			case 0:
				return cty.List(t.ElementType())
			case 1:
				return cty.Set(t.ElementType())
			default:
				return cty.Map(t.ElementType())
			}
		}
		e := mutateTy(r, t.ElementType(), o)
		switch {
		case t.IsListType():
			return cty.List(e)
		case t.IsSetType():
			return cty.Set(e)
		default:
			return cty.Map(e)
		}
	case t.IsTupleType():
		es := append([]cty.Type(nil), t.TupleElementTypes()...)
		switch {
		case len(es) == 0 || r.Intn(5) == 0:
			return cty.Tuple(append(es, genTy(r, 0, o)))
		case r.Intn(5) == 0:
			return cty.Tuple(es[:len(es)-1])
		case len(es) >= 2 && r.Intn(4) == 0:
			i := r.Intn(len(es) - 1)
			es[i], es[i+1] = es[i+1], es[i]
			return cty.Tuple(es)
		default:
			i := r.Intn(len(es))
			es[i] = mutateTy(r, es[i], o)
			return cty.Tuple(es)
		}
	case t.IsObjectType():
		atys := map[string]cty.Type{}
		for k, v := range t.AttributeTypes() {
			atys[k] = v
		}
		optm := map[string]bool{}
		for k := range t.OptionalAttributes() {
			optm[k] = true
		}
		ks := sortedKeys(atys)
		switch c := r.Intn(6); {
		case len(ks) == 0 || c == 0:
			atys[attrNames[r.Intn(len(attrNames))]] = genTy(r, 0, o)
		case c == 1:
			k := ks[r.Intn(len(ks))]
			delete(atys, k)
			delete(optm, k)
		case c == 2 && o.Opt:
			k := ks[r.Intn(len(ks))]
			optm[k] = !optm[k]
		default:
			k := ks[r.Intn(len(ks))]
			atys[k] = mutateTy(r, atys[k], o)
		}
		var opts []string
		for _, k := range sortedKeys(atys) {
			if optm[k] {
				opts = append(opts, k)
			}
		}
		if len(opts) > 0 {
			return cty.ObjectWithOptionalAttrs(atys, opts)
		}
		return cty.Object(atys)
	default:
		for {
			n := genTy(r, 0, o)
			if !n.Equals(t) || r.Intn(8) == 0 {
				return n
			}
		}
	}
}
