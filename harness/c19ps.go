package main

// C19, PathSet slice: the REAL cty.PathSet against the Lean model
// (CtyModel.PathSet over the generic SetImpl, driver op `pathset.run`) and
// against an independent reference kept here: a plain list of pairwise
// inequivalent paths with linear search (no hashing, no buckets).
//
//	pathset-has / -list / -empty / -equal   answers are those of the mathematical set
//	pathset-hash                            equivalent paths hash alike (driver: pathset.hash / pathset.equiv)

import (
	"fmt"
	"hash/crc64"
	"strings"

	"github.com/zclconf/go-cty/cty"
)

type c19PSOp struct {
	k       string // add addall rem has list empty equal union inter sub symd
	a, b, c int
	p       cty.Path
}

func (o c19PSOp) wire() string {
	switch o.k {
	case "add", "addall", "rem", "has":
		return fmt.Sprintf("(%s %d %s)", o.k, o.a, encPath(o.p))
	case "list", "empty":
		return fmt.Sprintf("(%s %d)", o.k, o.a)
	case "equal":
		return fmt.Sprintf("(equal %d %d)", o.a, o.b)
	}
	return fmt.Sprintf("(%s %d %d %d)", o.k, o.a, o.b, o.c)
}

func (o c19PSOp) golit() string {
	switch o.k {
	case "add":
		return fmt.Sprintf("s[%d].Add(%s)", o.a, pathLit(o.p))
	case "addall":
		return fmt.Sprintf("s[%d].AddAllSteps(%s)", o.a, pathLit(o.p))
	case "rem":
		return fmt.Sprintf("s[%d].Remove(%s)", o.a, pathLit(o.p))
	case "has":
		return fmt.Sprintf("s[%d].Has(%s)", o.a, pathLit(o.p))
	case "list":
		return fmt.Sprintf("s[%d].List()", o.a)
	case "empty":
		return fmt.Sprintf("s[%d].Empty()", o.a)
	case "equal":
		return fmt.Sprintf("s[%d].Equal(s[%d])", o.a, o.b)
	case "union":
		return fmt.Sprintf("s[%d] = s[%d].Union(s[%d])", o.a, o.b, o.c)
	case "inter":
		return fmt.Sprintf("s[%d] = s[%d].Intersection(s[%d])", o.a, o.b, o.c)
	case "sub":
		return fmt.Sprintf("s[%d] = s[%d].Subtract(s[%d])", o.a, o.b, o.c)
	}
	return fmt.Sprintf("s[%d] = s[%d].SymmetricDifference(s[%d])", o.a, o.b, o.c)
}

// keys without an unknown anywhere, marked or not: `Equivalent` (Equals known and true,
// marks aside) is an equivalence relation on those, so the reference set applies.  The
// theorems (pathset_refines) cover the known number / string keys among them; null keys
// and keys of other types are searched only.  (d19: was number / string keys only.)
func c19GoodPath(p cty.Path) bool {
	for _, s := range p {
		if is, ok := s.(cty.IndexStep); ok {
			k, _ := is.Key.UnmarkDeep() // marks on keys play no part (9ae0f30)
			if !k.IsWhollyKnown() {
				return false
			}
		}
	}
	return true
}

// reference equivalence: stepwise, keys by the public Equals
func c19PathEq(a, b cty.Path) bool {
	if len(a) != len(b) {
		return false
	}
	for i := range a {
		switch x := a[i].(type) {
		case cty.GetAttrStep:
			y, ok := b[i].(cty.GetAttrStep)
			if !ok || x.Name != y.Name {
				return false
			}
		case cty.IndexStep:
			y, ok := b[i].(cty.IndexStep)
			if !ok {
				return false
			}
			eq, _ := x.Key.Equals(y.Key).Unmark()
			if !eq.IsKnown() || !eq.True() {
				return false
			}
		}
	}
	return true
}

// c19PathIdent: the identity of a path as a member of a mathematical set of paths.
// Where every key comparison is known this is c19PathEq (Equals known and true, marks
// aside); a key that holds an unknown value — which Equals cannot decide even against
// itself — is the same key exactly when it is RawEquals after UnmarkDeep (the identity
// Path.Equals uses for every key).
func c19PathIdent(a, b cty.Path) bool {
	if len(a) != len(b) {
		return false
	}
	for i := range a {
		switch x := a[i].(type) {
		case cty.GetAttrStep:
			y, ok := b[i].(cty.GetAttrStep)
			if !ok || x.Name != y.Name {
				return false
			}
		case cty.IndexStep:
			y, ok := b[i].(cty.IndexStep)
			if !ok {
				return false
			}
			eq, _ := x.Key.Equals(y.Key).Unmark()
			if eq.IsKnown() {
				if !eq.True() {
					return false
				}
				continue
			}
			xk, _ := x.Key.UnmarkDeep()
			yk, _ := y.Key.UnmarkDeep()
			if !xk.RawEquals(yk) {
				return false
			}
		}
	}
	return true
}

// c19Ref: a plain list of paths with linear search under a given relation (no hashing,
// no buckets).  With eq = c19PathIdent it is the mathematical set the property speaks
// of; with eq = c19PathEq it replays cty/set's algorithms under the relation
// pathSetRules.Equivalent really implements (not reflexive on keys holding an unknown)
// and is used ONLY to recognise the recorded finding `unknown-key-never-equivalent`.
type c19Ref struct {
	ps []cty.Path
	eq func(a, b cty.Path) bool
}

func (r c19Ref) has(p cty.Path) bool {
	for _, q := range r.ps {
		if r.eq(p, q) {
			return true
		}
	}
	return false
}
func (r c19Ref) add(p cty.Path) c19Ref {
	if r.has(p) {
		return r
	}
	return c19Ref{append(append([]cty.Path(nil), r.ps...), p), r.eq}
}
func (r c19Ref) rem(p cty.Path) c19Ref {
	out := c19Ref{nil, r.eq}
	for _, q := range r.ps {
		if !r.eq(p, q) {
			out.ps = append(out.ps, q)
		}
	}
	return out
}

// sameAs: equality of the sets (mutual inclusion)
func (r c19Ref) sameAs(o c19Ref) bool {
	for _, q := range r.ps {
		if !o.has(q) {
			return false
		}
	}
	for _, q := range o.ps {
		if !r.has(q) {
			return false
		}
	}
	return true
}

// equalAsGo: PathSet.Equal's own algorithm (same length, every member of r found in o)
func (r c19Ref) equalAsGo(o c19Ref) bool {
	if len(r.ps) != len(o.ps) {
		return false
	}
	for _, q := range r.ps {
		if !o.has(q) {
			return false
		}
	}
	return true
}

// binary: the four set-algebra methods as cty/set writes them (Add into a fresh set)
func (r c19Ref) binary(k string, o c19Ref) c19Ref {
	n := c19Ref{nil, r.eq}
	switch k {
	case "union":
		for _, q := range r.ps {
			n = n.add(q)
		}
		for _, q := range o.ps {
			n = n.add(q)
		}
	case "inter":
		for _, q := range r.ps {
			if o.has(q) {
				n = n.add(q)
			}
		}
	case "sub":
		for _, q := range r.ps {
			if !o.has(q) {
				n = n.add(q)
			}
		}
	default:
		for _, q := range r.ps {
			if !o.has(q) {
				n = n.add(q)
			}
		}
		for _, q := range o.ps {
			if !r.has(q) {
				n = n.add(q)
			}
		}
	}
	return n
}

// isListingOf: l is a duplicate-free listing of the set (under the set's relation)
func (r c19Ref) isListingOf(l []cty.Path) bool {
	if len(l) != len(r.ps) {
		return false
	}
	for i, p := range l {
		if !r.has(p) {
			return false
		}
		for _, q := range l[:i] {
			if r.eq(p, q) {
				return false
			}
		}
	}
	return true
}

// sameMembersAs: l holds the members of r one for one (matched by identity); used for
// the replay of the implemented relation, where a set can hold a path twice
func (r c19Ref) sameMembersAs(l []cty.Path) bool {
	if len(l) != len(r.ps) {
		return false
	}
	used := make([]bool, len(r.ps))
	for _, p := range l {
		found := false
		for i, q := range r.ps {
			if !used[i] && c19PathIdent(p, q) {
				used[i], found = true, true
				break
			}
		}
		if !found {
			return false
		}
	}
	return true
}

func encPaths(ps []cty.Path) string {
	ss := make([]string, len(ps))
	for i, p := range ps {
		ss[i] = encPath(p)
	}
	return "(" + strings.Join(ss, " ") + ")"
}

// c19RunPS replays a history on real PathSets, records the correspondence case, and
// checks every answer against the mathematical reference set.  `good` says that no key
// of the history holds an unknown value.  Otherwise a wrong answer that is exactly the
// answer cty/set's algorithms give under a relation that never identifies a key holding
// an unknown with anything (itself included) is reported under the one signature
// pathset-refines / unknown-key-never-equivalent (a recorded finding); every other
// wrong answer, and every panic, under its own site.
func c19RunPS(ctx *Ctx, nregs int, ops []c19PSOp, good bool, tag string) {
	regs := make([]cty.PathSet, nregs)
	refs := make([]c19Ref, nregs) // the mathematical sets
	defs := make([]c19Ref, nregs) // replay of the implemented relation
	for i := range regs {
		regs[i] = cty.NewPathSet()
		refs[i] = c19Ref{nil, c19PathIdent}
		defs[i] = c19Ref{nil, c19PathEq}
	}
	var outs, wires, lits []string
	for _, o := range ops {
		wires = append(wires, o.wire())
		lits = append(lits, o.golit())
	}
	hist := strings.Join(wires, " ")
	glit := strings.Join(lits, "; ")
	fail := func(site, sig, what, outcome string) {
		ctx.Fail(Failure{Site: site, Sig: sig, What: what, Input: hist, GoLit: glit, Outcome: outcome})
	}
	// verdict: okMath — the answer is the one the mathematical sets dictate; okDef — it is
	// the one the replay of the implemented relation gives
	verdict := func(okMath, okDef bool, site, sig, what, outcome string) {
		switch {
		case okMath:
		case !good && okDef:
			fail("pathset-refines", "unknown-key-never-equivalent",
				"a path with an index key that holds an unknown value is never Equivalent to anything, itself included: Add files it again, Has does not find it, Remove leaves it ("+what+")", outcome)
		default:
			fail(site, sig, what, outcome)
		}
	}
	pan, why := try(func() {
		for _, o := range ops {
			switch o.k {
			case "add":
				regs[o.a].Add(o.p)
				refs[o.a] = refs[o.a].add(o.p)
				defs[o.a] = defs[o.a].add(o.p)
			case "addall":
				regs[o.a].AddAllSteps(o.p)
				for i := 1; i <= len(o.p); i++ {
					refs[o.a] = refs[o.a].add(o.p[:i])
					defs[o.a] = defs[o.a].add(o.p[:i])
				}
			case "rem":
				regs[o.a].Remove(o.p)
				refs[o.a] = refs[o.a].rem(o.p)
				defs[o.a] = defs[o.a].rem(o.p)
			case "has":
				h := regs[o.a].Has(o.p)
				outs = append(outs, encBool(h))
				verdict(h == refs[o.a].has(o.p), h == defs[o.a].has(o.p), "pathset-has", "has",
					"Has disagrees with the set of paths added and not removed", o.golit()+" = "+encBool(h))
			case "list":
				l := regs[o.a].List()
				outs = append(outs, encPaths(l))
				verdict(refs[o.a].isListingOf(l), defs[o.a].sameMembersAs(l), "pathset-list", "list",
					"List is not a duplicate-free listing of the set", o.golit()+" = "+encPaths(l))
			case "empty":
				e := regs[o.a].Empty()
				outs = append(outs, encBool(e))
				verdict(e == (len(refs[o.a].ps) == 0), e == (len(defs[o.a].ps) == 0), "pathset-empty", "empty",
					"Empty disagrees with the set", o.golit()+" = "+encBool(e))
			case "equal":
				e := regs[o.a].Equal(regs[o.b])
				outs = append(outs, encBool(e))
				verdict(e == refs[o.a].sameAs(refs[o.b]), e == defs[o.a].equalAsGo(defs[o.b]), "pathset-equal", "equal",
					"Equal disagrees with equality of the sets", o.golit()+" = "+encBool(e))
			case "union":
				regs[o.a] = regs[o.b].Union(regs[o.c])
				refs[o.a], defs[o.a] = refs[o.b].binary(o.k, refs[o.c]), defs[o.b].binary(o.k, defs[o.c])
			case "inter":
				regs[o.a] = regs[o.b].Intersection(regs[o.c])
				refs[o.a], defs[o.a] = refs[o.b].binary(o.k, refs[o.c]), defs[o.b].binary(o.k, defs[o.c])
			case "sub":
				regs[o.a] = regs[o.b].Subtract(regs[o.c])
				refs[o.a], defs[o.a] = refs[o.b].binary(o.k, refs[o.c]), defs[o.b].binary(o.k, defs[o.c])
			case "symd":
				regs[o.a] = regs[o.b].SymmetricDifference(regs[o.c])
				refs[o.a], defs[o.a] = refs[o.b].binary(o.k, refs[o.c]), defs[o.b].binary(o.k, defs[o.c])
			}
		}
	})
	impl := "panic"
	if !pan {
		finals := make([]string, nregs)
		for i := range regs {
			l := regs[i].List()
			finals[i] = encPaths(l)
			verdict(refs[i].isListingOf(l), defs[i].sameMembersAs(l), "pathset-members", "members",
				fmt.Sprintf("final content of s[%d] is not the mathematical result", i), encPaths(l))
		}
		impl = strings.Join(append(append(outs, "|"), finals...), " ")
	} else {
		sig := "panic"
		for _, o := range ops {
			for _, st := range o.p {
				if is, ok := st.(cty.IndexStep); ok && is.Key.IsMarked() {
					sig = "marked-key"
				}
			}
		}
		if !good {
			sig = "unknown-key-panic"
		}
		fail("pathset-no-panic", sig, "a PathSet call panicked: "+why, "panic")
	}
	args := append([]string{fmt.Sprint(nregs)}, wires...)
	ctx.Add("pathset.run", impl, args...)
	ctx.Tag("pathset:" + tag)
	ctx.Eval("ps "+hist, len(ops) >= 3)
}

var c19crcTab = crc64.MakeTable(crc64.ISO)

func runC19PathSet(ctx *Ctx) {
	one := cty.NumberIntVal(1)
	onePt := cty.MustParseNumberVal("1.0") // equal to 1 at another precision
	trios := [][]cty.Path{
		// all three hash alike (index steps hash to "#"); the first two are equivalent
		{cty.IndexPath(one), cty.IndexPath(onePt), cty.IndexPath(cty.NumberIntVal(2))},
		// attribute paths, one a prefix of another
		{cty.GetAttrPath("a"), cty.GetAttrPath("a").IndexInt(0), cty.GetAttrPath("b")},
	}
	// (a) every history of length <= 4 over three paths, one set
	for ti, trio := range trios {
		var alpha []c19PSOp
		for _, p := range trio {
			alpha = append(alpha, c19PSOp{k: "add", p: p}, c19PSOp{k: "rem", p: p}, c19PSOp{k: "has", p: p})
		}
		alpha = append(alpha, c19PSOp{k: "list"}, c19PSOp{k: "empty"})
		if ti == 1 {
			alpha = append(alpha, c19PSOp{k: "addall", p: trio[1]})
		}
		maxLen := 4
		if ti == 1 && !ctx.Thorough {
			maxLen = 3
		}
		var rec func(prefix []c19PSOp)
		rec = func(prefix []c19PSOp) {
			if len(prefix) > 0 {
				c19RunPS(ctx, 1, append([]c19PSOp(nil), prefix...), true, "exhaustive")
			}
			if len(prefix) == maxLen {
				return
			}
			for _, o := range alpha {
				rec(append(prefix, o))
			}
		}
		rec(nil)
	}
	// (b) every pair of subsets of a trio x every binary operation
	for _, trio := range trios {
		for m1 := 0; m1 < 8; m1++ {
			for m2 := 0; m2 < 8; m2++ {
				var pre []c19PSOp
				for i, p := range trio {
					if m1&(1<<i) != 0 {
						pre = append(pre, c19PSOp{k: "add", a: 0, p: p})
					}
					if m2&(1<<i) != 0 {
						pre = append(pre, c19PSOp{k: "add", a: 1, p: p})
					}
				}
				for _, k := range []string{"union", "inter", "sub", "symd"} {
					ops := append(append([]c19PSOp(nil), pre...), c19PSOp{k: k, a: 2, b: 0, c: 1}, c19PSOp{k: "list", a: 2}, c19PSOp{k: "equal", a: 0, b: 1}, c19PSOp{k: "equal", a: 2, b: 0})
					c19RunPS(ctx, 3, ops, true, "exhaustive-binary")
				}
			}
		}
	}
	ctx.res.Exhaustive = true
	ctx.res.Scope = "PathSet: every history of length <= 4 over {Add,Remove,Has}x3 paths + List + Empty on one set (two path trios; the second to length 3 in the quick tier); every pair of subsets of a trio x {Union,Intersection,Subtract,SymmetricDifference} + Equal"

	// (c) long random histories over a pool with collisions, equivalent keys at
	// different precisions, NFC-equal strings, prefixes
	pool := []cty.Path{
		nil, cty.GetAttrPath("a"), cty.GetAttrPath("b"), cty.GetAttrPath("ab"), cty.GetAttrPath("a").GetAttr("b"),
		cty.GetAttrPath("a").Index(cty.NumberIntVal(1).Mark("m1")), cty.IndexPath(cty.StringVal("0").Mark("m2")),
		cty.IndexPath(cty.NumberIntVal(0).Mark("m1").Mark("m2")),
		cty.GetAttrPath("a").IndexInt(0), cty.GetAttrPath("a").IndexInt(1), cty.GetAttrPath("a").Index(onePt),
		cty.GetAttrPath("a").IndexString("k"), cty.GetAttrPath("a").IndexString("é"), cty.GetAttrPath("a").IndexString("é"),
		cty.IndexIntPath(0), cty.IndexIntPath(1), cty.IndexPath(onePt), cty.IndexStringPath("0"), cty.IndexStringPath(""),
		cty.IndexPath(cty.NumberFloatVal(0.1)), cty.IndexPath(cty.MustParseNumberVal("0.1")), cty.IndexPath(cty.MustParseNumberVal("1.00000000001")),
		cty.IndexIntPath(0).GetAttr("x"), cty.IndexIntPath(0).IndexInt(0), cty.IndexIntPath(0).IndexString("0"),
		cty.GetAttrPath("é"), cty.GetAttrPath("zz").GetAttr("a").GetAttr("b").IndexInt(3),
	}
	odd := []cty.Path{
		cty.IndexPath(cty.UnknownVal(cty.Number)), cty.IndexPath(cty.UnknownVal(cty.String)), cty.GetAttrPath("a").Index(cty.DynamicVal),
		cty.IndexPath(cty.NullVal(cty.Number)), cty.IndexPath(cty.NullVal(cty.String)), cty.IndexPath(cty.True),
		cty.IndexPath(cty.ListVal([]cty.Value{cty.StringVal("a")})), cty.IndexPath(cty.ListVal([]cty.Value{cty.UnknownVal(cty.String)})),
		cty.IndexPath(cty.TupleVal([]cty.Value{one, cty.StringVal("x")})),
	}
	for _, p := range append(append([]cty.Path(nil), pool...), odd...) {
		// hash: the model's CRC-64 against hash/crc64 over the same bytes
		h := crc64.New(c19crcTab)
		for _, s := range p {
			if ga, ok := s.(cty.GetAttrStep); ok {
				h.Write([]byte(ga.Name))
			} else {
				h.Write([]byte("#"))
			}
		}
		ctx.Add("pathset.hash", fmt.Sprint(int(h.Sum64())), encPath(p))
	}
	// index keys that carry marks (repaired by 9ae0f30: comparing two such paths panicked)
	mk := func(i int64) cty.Path { return cty.IndexPath(cty.NumberIntVal(i).Mark("m1")) }
	c19RunPS(ctx, 1, []c19PSOp{{k: "add", p: mk(1)}, {k: "add", p: mk(2)}, {k: "list"}, {k: "has", p: mk(2)},
		{k: "has", p: cty.IndexIntPath(1)}, {k: "add", p: cty.IndexIntPath(2)}, {k: "list"}, {k: "rem", p: cty.IndexIntPath(1)}, {k: "list"}}, true, "marked-keys")
	// the recorded finding pathset-refines / unknown-key-never-equivalent, minimal witness
	// first (case 0): a path whose key holds an unknown is filed twice and never found
	uk := cty.IndexPath(cty.UnknownVal(cty.Number))
	c19RunPS(ctx, 1, []c19PSOp{{k: "add", p: uk}, {k: "has", p: uk}}, false, "unknown-key")
	c19RunPS(ctx, 2, []c19PSOp{{k: "add", p: uk}, {k: "add", p: uk}, {k: "list"}, {k: "rem", p: uk}, {k: "empty"},
		{k: "add", a: 1, p: cty.IndexPath(cty.UnknownVal(cty.Number))}, {k: "equal", a: 1, b: 1}, {k: "has", a: 1, p: cty.IndexIntPath(0)},
		{k: "has", a: 1, p: cty.IndexPath(cty.UnknownVal(cty.Number).RefineNotNull())}}, false, "unknown-key")
	nHist := ctx.N(600, 20000)
	for i := 0; i < nHist; i++ {
		nregs := 2 + ctx.R.Intn(3)
		useOdd := ctx.R.Intn(5) == 0
		pick := func() cty.Path {
			if useOdd && ctx.R.Intn(3) == 0 {
				return odd[ctx.R.Intn(len(odd))]
			}
			return pool[ctx.R.Intn(len(pool))]
		}
		n := 5 + ctx.R.Intn(40)
		var ops []c19PSOp
		good := true
		for j := 0; j < n; j++ {
			a, b, c := ctx.R.Intn(nregs), ctx.R.Intn(nregs), ctx.R.Intn(nregs)
			var o c19PSOp
			switch k := ctx.R.Intn(20); {
			case k < 6:
				o = c19PSOp{k: "add", a: a, p: pick()}
			case k < 8:
				o = c19PSOp{k: "addall", a: a, p: pick()}
			case k < 11:
				o = c19PSOp{k: "rem", a: a, p: pick()}
			case k < 14:
				o = c19PSOp{k: "has", a: a, p: pick()}
			case k == 14:
				o = c19PSOp{k: "list", a: a}
			case k == 15:
				o = c19PSOp{k: "empty", a: a}
			case k == 16:
				o = c19PSOp{k: "equal", a: a, b: b}
			default:
				o = c19PSOp{k: []string{"union", "inter", "sub", "symd"}[ctx.R.Intn(4)], a: a, b: b, c: c}
			}
			if o.p != nil && !c19GoodPath(o.p) {
				good = false
			}
			ops = append(ops, o)
		}
		tag := "random"
		if !good {
			tag = "random-odd-keys"
		}
		c19RunPS(ctx, nregs, ops, good, tag)
	}
}
