package main

import (
	"fmt"
	"math/rand"

	"github.com/zclconf/go-cty/cty"
)

// d09b: placeholder-free (no DynamicPseudoType anywhere) lists of structural types whose
// unification goes through unifyObjectTypes / unifyTupleTypes / the tuple-as-list and
// object-as-map fallbacks at SEVERAL levels: what C09.unified_plain, convs_yield_unified_plain,
// safe_convs_total_plain, unify_type_eq and the unsafe-of-safe search talk about.  The same
// skeleton is filled with related leaves, so that most lists do unify.

func c09d09bLeaf(r *rand.Rand) cty.Type {
	return []cty.Type{cty.String, cty.Number, cty.Bool, cty.String, cty.Number}[r.Intn(5)]
}

// a skeleton is drawn once per case (from rs); the leaves per member (from r)
func c09d09bFill(rs, r *rand.Rand, depth int) cty.Type {
	k := rs.Intn(7)
	if depth == 0 {
		k = 0
	}
	switch k {
	case 1:
		return cty.List(c09d09bFill(rs, r, depth-1))
	case 2:
		return cty.Map(c09d09bFill(rs, r, depth-1))
	case 3:
		return cty.Set(c09d09bFill(rs, r, depth-1))
	case 4, 5:
		n := 1 + rs.Intn(3)
		es := make([]cty.Type, n)
		for i := range es {
			es[i] = c09d09bFill(rs, r, depth-1)
		}
		return cty.Tuple(es)
	case 6:
		n := 1 + rs.Intn(3)
		m := map[string]cty.Type{}
		for i := 0; i < n; i++ {
			m[string(rune('a'+i))] = c09d09bFill(rs, r, depth-1)
		}
		return cty.Object(m)
	default:
		return c09d09bLeaf(r)
	}
}

func c09d09bDepth(t cty.Type) int {
	switch {
	case t.IsCollectionType():
		return 1 + c09d09bDepth(t.ElementType())
	case t.IsTupleType():
		d := 0
		for _, e := range t.TupleElementTypes() {
			if x := c09d09bDepth(e); x > d {
				d = x
			}
		}
		return 1 + d
	case t.IsObjectType():
		d := 0
		atys := t.AttributeTypes()
		for _, n := range sortedKeys(atys) {
			if x := c09d09bDepth(atys[n]); x > d {
				d = x
			}
		}
		return 1 + d
	}
	return 0
}

func c09D09b(c *c09Run) {
	ctx := c.ctx
	r := ctx.R
	n := ctx.N(160, 3000)
	for i := 0; i < n; i++ {
		seed := r.Int63()
		k := 2 + r.Intn(2)
		tys := make([]cty.Type, k)
		for j := range tys {
			tys[j] = c09d09bFill(rand.New(rand.NewSource(seed)), r, 1+i%3)
		}
		// now and then a member of another shape at the top: tuple among lists, object among maps
		switch r.Intn(6) {
		case 0:
			if tys[0].IsTupleType() && len(tys[0].TupleElementTypes()) > 0 {
				tys = append(tys, cty.List(tys[0].TupleElementTypes()[0]))
				ctx.Tag("d09b:list-among-tuples")
			}
		case 1:
			if tys[0].IsObjectType() {
				atys := tys[0].AttributeTypes()
				for _, nm := range sortedKeys(atys) {
					tys = append(tys, cty.Map(atys[nm]))
					ctx.Tag("d09b:map-among-objects")
					break
				}
			}
		}
		ctx.Tag(fmt.Sprintf("shape:d09b-plain:depth%d", c09d09bDepth(tys[0])))
		ctx.Tag("shape:d09b-plain:top-" + kindTag(tys[0]))
		c.list(tys, 2)
	}
}
