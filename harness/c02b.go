package main

import (
	"fmt"

	"github.com/zclconf/go-cty/cty"
)

// runC02More: modulo, collections against plain Go references, and the
// correspondence of every operation method on wholly known operands.
func runC02More(ctx *Ctx) {
	o := ValOpts{Null: true, Small: true}
	// correspondence of all ops on known operands (incl. wrong-typed ones)
	n := ctx.N(300, 8000)
	for _, s := range opSpecs {
		for i := 0; i < n; i++ {
			args := s.gen(ctx, o)
			out, _, _ := opOut(func() cty.Value { return s.call(args) })
			w := s.wire(args)
			ctx.Add("op."+s.name, out, w...)
		}
	}
	// modulo on integers that fit: remainder of truncated division
	for i := 0; i < ctx.N(2000, 50000); i++ {
		x := int64(ctx.R.Intn(2000001) - 1000000)
		y := int64(ctx.R.Intn(2001) - 1000)
		if ctx.R.Intn(4) == 0 {
			x = ctx.R.Int63n(1<<60) - (1 << 59)
			y = ctx.R.Int63n(1<<40) - (1 << 39)
		}
		if y == 0 {
			continue
		}
		a, b := cty.NumberIntVal(x), cty.NumberIntVal(y)
		out, res, p := opOut(func() cty.Value { return a.Modulo(b) })
		ctx.Add("op.mod", out, encVal(a), encVal(b))
		key := fmt.Sprintf("mod %d %d", x, y)
		ctx.Eval(key, !p)
		if p {
			ctx.Fail(Failure{Site: "modulo", Sig: "mod-panic", What: "modulo panicked on integers", Input: key, GoLit: a.GoString() + " ; " + b.GoString(), Outcome: "panic"})
			continue
		}
		want := x % y // Go's % is the remainder of truncated division
		got, acc := res.AsBigFloat().Int64()
		if acc != 0 || got != want {
			ctx.Fail(Failure{Site: "modulo", Sig: "mod-int", What: "modulo of integers is not the remainder of truncated division", Input: key, GoLit: a.GoString() + " ; " + b.GoString(), Outcome: res.GoString()})
		}
	}
	// collections built from generated members
	vo := ValOpts{Null: true, Small: true}
	for i := 0; i < ctx.N(2000, 40000); i++ {
		ety := genTy(ctx.R, 1, TyOpts{})
		k := ctx.R.Intn(4)
		members := make([]cty.Value, k)
		for j := range members {
			members[j] = genVal(ctx.R, ety, 1, vo)
		}
		c02List(ctx, ety, members)
		c02Map(ctx, ety, members)
		c02Set(ctx, ety, members)
		c02Tuple(ctx, members)
	}
}

func expectMember(ctx *Ctx, site string, got cty.Value, want cty.Value, input, lit string) {
	if !got.RawEquals(want) {
		ctx.Fail(Failure{Site: site, Sig: site + ":wrong-member", What: "lookup did not return the member the value was constructed from", Input: input, GoLit: lit, Outcome: got.GoString() + " want " + want.GoString()})
	}
}

func c02List(ctx *Ctx, ety cty.Type, ms []cty.Value) {
	var l cty.Value
	if len(ms) == 0 {
		l = cty.ListValEmpty(ety)
	} else {
		l = cty.ListVal(ms)
	}
	w := encVal(l)
	if ln := l.Length(); !ln.RawEquals(cty.NumberIntVal(int64(len(ms)))) {
		ctx.Fail(Failure{Site: "length", Sig: "length:list", What: "list length differs from the number of members", Input: w, GoLit: l.GoString(), Outcome: ln.GoString()})
	}
	for idx := -1; idx <= len(ms)+1; idx++ {
		k := cty.NumberIntVal(int64(idx))
		has := l.HasIndex(k)
		var got cty.Value
		p, _ := try(func() { got = l.Index(k) })
		in := idx >= 0 && idx < len(ms)
		input := fmt.Sprintf("%s [%d]", w, idx)
		ctx.Eval("listidx "+input, true)
		if !has.IsKnown() || has.True() != in {
			ctx.Fail(Failure{Site: "hasindex", Sig: "hasindex:list", What: "HasIndex disagrees with the index range", Input: input, GoLit: l.GoString(), Outcome: has.GoString()})
		}
		if p == in {
			ctx.Fail(Failure{Site: "index-iff-hasindex", Sig: "index-iff-hasindex:list", What: "Index succeeds iff HasIndex is true: violated for a list", Input: input, GoLit: l.GoString(), Outcome: fmt.Sprint("panicked=", p)})
		}
		if !p && in {
			expectMember(ctx, "index", got, ms[idx], input, l.GoString())
			if !got.Type().Equals(ety) {
				ctx.Fail(Failure{Site: "index", Sig: "index:type", What: "element does not have the element type", Input: input, GoLit: l.GoString(), Outcome: got.Type().GoString()})
			}
		}
	}
	c02BadKeys(ctx, l, len(ms), w)
}

// c02BadKeys: keys that are not whole numbers in [0, n) must be rejected by
// Index and answered False by HasIndex — fractions on both sides of every
// boundary (incl. (-1, 0), where truncation toward zero would give index 0),
// huge magnitudes, infinities, wrong-typed keys.  Each is also a
// correspondence case.
func c02BadKeys(ctx *Ctx, l cty.Value, n int, w string) {
	fn := float64(n)
	keys := []cty.Value{
		cty.NumberFloatVal(0.5), cty.NumberFloatVal(-0.5), cty.NumberFloatVal(-0.75), cty.MustParseNumberVal("-1e-30"),
		cty.MustParseNumberVal("1e-30"), cty.NumberFloatVal(-1.5), cty.NumberFloatVal(fn - 0.5), cty.NumberFloatVal(fn + 0.5),
		cty.NumberFloatVal(fn - 1 + 0.25), cty.NumberFloatVal(1.5),
		cty.MustParseNumberVal("18446744073709551616"), cty.MustParseNumberVal("-9223372036854775809"),
		cty.MustParseNumberVal("9223372036854775808"), cty.MustParseNumberVal("4294967296.5"),
		cty.PositiveInfinity, cty.NegativeInfinity, cty.NumberIntVal(-1), cty.NumberIntVal(int64(n)),
		cty.StringVal("0"), cty.True,
	}
	for _, k := range keys {
		wk := encVal(k)
		whole := false
		if k.Type() == cty.Number {
			if i, acc := k.AsBigFloat().Int64(); acc == 0 && i >= 0 && i < int64(n) {
				whole = true
			}
		}
		if whole {
			continue
		}
		ctx.Eval("badkey "+w+" "+wk, true)
		out, _, p := opOut(func() cty.Value { return l.Index(k) })
		ctx.Add("op.index", out, w, wk)
		if !p {
			ctx.Fail(Failure{Site: "index", Sig: "index:badkey-accepted", What: "a fractional, out-of-range or wrong-typed list/tuple key yielded a value", Input: w + " " + wk, GoLit: l.GoString() + ".Index(" + k.GoString() + ")", Outcome: out})
		}
		hout, h, hp := opOut(func() cty.Value { return l.HasIndex(k) })
		ctx.Add("op.hasindex", hout, w, wk)
		if hp || !h.IsKnown() || h.True() {
			ctx.Fail(Failure{Site: "hasindex", Sig: "hasindex:badkey", What: "HasIndex is not False for a fractional, out-of-range or wrong-typed key", Input: w + " " + wk, GoLit: l.GoString() + ".HasIndex(" + k.GoString() + ")", Outcome: hout})
		}
	}
}

func c02Map(ctx *Ctx, ety cty.Type, ms []cty.Value) {
	keys := []string{"a", "b", "k"}
	m := map[string]cty.Value{}
	for i, v := range ms {
		if i < len(keys) {
			m[keys[i]] = v
		}
	}
	var mv cty.Value
	if len(m) == 0 {
		mv = cty.MapValEmpty(ety)
	} else {
		mv = cty.MapVal(m)
	}
	w := encVal(mv)
	if ln := mv.Length(); !ln.RawEquals(cty.NumberIntVal(int64(len(m)))) {
		ctx.Fail(Failure{Site: "length", Sig: "length:map", What: "map length differs from the number of members", Input: w, GoLit: mv.GoString(), Outcome: ln.GoString()})
	}
	for _, k := range append(keys, "nope") {
		kv := cty.StringVal(k)
		want, in := m[k]
		has := mv.HasIndex(kv)
		var got cty.Value
		p, _ := try(func() { got = mv.Index(kv) })
		input := w + " [" + k + "]"
		ctx.Eval("mapidx "+input, true)
		if !has.IsKnown() || has.True() != in {
			ctx.Fail(Failure{Site: "hasindex", Sig: "hasindex:map", What: "HasIndex disagrees with key presence", Input: input, GoLit: mv.GoString(), Outcome: has.GoString()})
		}
		if p == in {
			ctx.Fail(Failure{Site: "index-iff-hasindex", Sig: "index-missing-map-key-returns-null", What: "Index succeeds iff HasIndex is true: a map lookup of a missing key returns a null instead of being rejected", Input: input, GoLit: mv.GoString() + ".Index(cty.StringVal(\"" + k + "\"))", Outcome: fmt.Sprint("panicked=", p, " got=", got.GoString())})
		}
		if !p && in {
			expectMember(ctx, "index", got, want, input, mv.GoString())
		}
	}
}

func c02Set(ctx *Ctx, ety cty.Type, ms []cty.Value) {
	if len(ms) == 0 {
		return
	}
	s := cty.SetVal(ms)
	w := encVal(s)
	for _, m := range ms {
		h := s.HasElement(m)
		ctx.Eval("sethas "+w+" "+encVal(m), true)
		if !h.IsKnown() || !h.True() {
			ctx.Fail(Failure{Site: "haselement", Sig: "haselement:member-missing", What: "a set does not contain a member it was built from", Input: w + " " + encVal(m), GoLit: s.GoString(), Outcome: h.GoString()})
		}
	}
	// a value equal to no member is not an element
	probe := genVal(ctx.R, ety, 1, ValOpts{Small: true})
	c02HasElementRef(ctx, s, ms, probe)
	// distinct count
	distinct := 0
	for i, m := range ms {
		dup := false
		for _, e := range ms[:i] {
			if e.Equals(m).True() {
				dup = true
			}
		}
		if !dup {
			distinct++
		}
	}
	if ln := s.Length(); !ln.RawEquals(cty.NumberIntVal(int64(distinct))) {
		ctx.Fail(Failure{Site: "length", Sig: "length:set", What: "set length differs from the number of distinct members", Input: w, GoLit: s.GoString(), Outcome: ln.GoString()})
	}
}

func c02Tuple(ctx *Ctx, ms []cty.Value) {
	t := cty.TupleVal(ms)
	w := encVal(t)
	for idx := -1; idx <= len(ms); idx++ {
		k := cty.NumberIntVal(int64(idx))
		has := t.HasIndex(k)
		var got cty.Value
		p, _ := try(func() { got = t.Index(k) })
		in := idx >= 0 && idx < len(ms)
		input := fmt.Sprintf("%s [%d]", w, idx)
		ctx.Eval("tupidx "+input, true)
		if !has.IsKnown() || has.True() != in {
			ctx.Fail(Failure{Site: "hasindex", Sig: "hasindex:tuple", What: "HasIndex disagrees with the tuple length", Input: input, GoLit: t.GoString(), Outcome: has.GoString()})
		}
		if p == in {
			ctx.Fail(Failure{Site: "index-iff-hasindex", Sig: "index-iff-hasindex:tuple", What: "Index succeeds iff HasIndex is true: violated for a tuple", Input: input, GoLit: t.GoString(), Outcome: fmt.Sprint("panicked=", p)})
		}
		if !p && in {
			expectMember(ctx, "index", got, ms[idx], input, t.GoString())
		}
	}
	c02BadKeys(ctx, t, len(ms), w)
	if ln := t.Length(); !ln.RawEquals(cty.NumberIntVal(int64(len(ms)))) {
		ctx.Fail(Failure{Site: "length", Sig: "length:tuple", What: "tuple length differs", Input: w, GoLit: t.GoString(), Outcome: ln.GoString()})
	}
	// objects: attributes come back as constructed
	attrs := map[string]cty.Value{}
	for i, m := range ms {
		attrs[attrNames[i%len(attrNames)]] = m
	}
	ov := cty.ObjectVal(attrs)
	for name, want := range attrs {
		var got cty.Value
		p, _ := try(func() { got = ov.GetAttr(name) })
		if p {
			ctx.Fail(Failure{Site: "getattr", Sig: "getattr:panic", What: "GetAttr panicked for a declared attribute", Input: encVal(ov) + " ." + name, GoLit: ov.GoString(), Outcome: "panic"})
		} else {
			expectMember(ctx, "getattr", got, want, encVal(ov)+" ."+name, ov.GoString())
		}
	}
	if p, _ := try(func() { ov.GetAttr("undeclared") }); !p {
		ctx.Fail(Failure{Site: "getattr", Sig: "getattr:undeclared-accepted", What: "GetAttr of an undeclared attribute yielded a value", Input: encVal(ov), GoLit: ov.GoString(), Outcome: "no panic"})
	}
}

// nonIntegerNumber: a known, non-null number that is not whole (whole numbers compare and hash exactly)
func nonIntegerNumber(v cty.Value) bool {
	if v.Type() != cty.Number || !v.IsKnown() || v.IsNull() {
		return false
	}
	f := v.AsBigFloat()
	return !f.IsInf() && !f.IsInt()
}

// c02HasElementRef: HasElement(probe) against a linear scan of the members using Equals.  A disagreement is a
// VIOLATION, except for the one recorded root cause, which gets its own signature: the needle Equals a member (number
// equality is equality of Text('f',-1) at each number's own precision) but the two hash differently (the set hash
// uses String() = 10 significant digits of the exact value), so the member's bucket is never scanned.  That signature
// is assigned only when EVERY Equals-true member is a non-integer number whose hash bytes differ from the needle's.
func c02HasElementRef(ctx *Ctx, s cty.Value, ms []cty.Value, probe cty.Value) {
	w := encVal(s)
	inRef := false
	var eq []cty.Value
	for _, m := range ms {
		if m.Equals(probe).True() {
			inRef = true
			eq = append(eq, m)
		}
	}
	h := s.HasElement(probe)
	if h.IsKnown() && h.True() == inRef {
		return
	}
	sig, what := "haselement:reference", "HasElement disagrees with a linear scan using Equals"
	if inRef && h.IsKnown() && h.False() && nonIntegerNumber(probe) {
		pb, pp := cty.VerifHashBytes(probe)
		all := !pp
		for _, m := range eq {
			mb, mp := cty.VerifHashBytes(m)
			if mp || !nonIntegerNumber(m) || string(mb) == string(pb) {
				all = false
			}
		}
		if all {
			sig = "haselement:equal-numbers-hash-by-String()-differs"
			what = "HasElement misses a member that Equals the needle: two non-integer numbers with the same shortest decimal text (Equals-true) whose 10-significant-digit String() texts, which the set hash uses, differ"
		}
	}
	ctx.Fail(Failure{Site: "haselement", Sig: sig, What: what, Input: w + " " + encVal(probe), GoLit: s.GoString() + ".HasElement(" + probe.GoString() + ")", Outcome: h.GoString()})
}
