package main

func runC02More(ctx *Ctx) {}
