package main

// C17, MessagePack half — the nested-set families (d17): the counterpart of the JSON family
// "nested-singleton-sets" (c17json.go (b'')), the regression of /repo 9319c03: cty.SetVal used to
// UnmarkDeep every member, which rebuilds every set nested inside through SetVal again, so a chain
// of d singleton sets cost 2^d steps and allocations for a document of d+2 bytes.  unmarshalSet
// ends in cty.SetVal for every level, so the same chain reaches it through msgpack.Unmarshal.
//
//	(a) singleton   [[[…["a"]…]]]                      set^d(string)            d = 1..12, 16..28 (..40 thorough)
//	(b) width 2     [[…["a","b"]…]]                    set^d(string)            d = 1..8   pair at the innermost level
//	                [[…["a","b"]…],[…["c"]…]]                                   d = 2..8   fork at the outermost level
//	                [[…["a"]…],[…["a"]…]]                                       d = 2..8   two equal compound members: one survives
//	                complete binary tree, distinct leaves                       d = 1..6 (..8 thorough)
//	(c) unknown     [[…[<unknown>]…]], [[…[<unknown>,"a"]…]]  set^d(string)     d = 1..8   ok or err, never a panic
//	(d) dynamic     [<bin ["set",["set",…"string"…]]>, [[…["a"]…]]]  dynamic    d = 1..10
//
// Every case is an ordinary (not `big`) case: besides the regression outcome, the allocation bound
// and the worker's watchdog it gets the value judged (C06 walk, Lean WF, conformance) and the
// correspondence with the item-level model (d17.unmarshal / mp.implied).

import (
	"fmt"
	"strings"

	"github.com/zclconf/go-cty/cty"
	ctyjson "github.com/zclconf/go-cty/cty/json"
)

// d17PlainUnknown: the extension item of a plain unknown value, fixext1 code 0: d4 00 00
func d17PlainUnknown() *mpItem { return &mpItem{kind: "ext", code: 0, raw: []byte{0}, hdr: "other"} }

// d17Chain wraps the item in d one-member arrays.
func d17Chain(inner *mpItem, d int) *mpItem {
	for i := 0; i < d; i++ {
		inner = mpArr(inner)
	}
	return inner
}

// d17SetTy: set^d(elem)
func d17SetTy(elem cty.Type, d int) cty.Type {
	for i := 0; i < d; i++ {
		elem = cty.Set(elem)
	}
	return elem
}

// d17Full: the complete binary tree of arrays, d levels, leaves "s0", "s1", … (all distinct)
func d17Full(d int, next *int) *mpItem {
	if d == 0 {
		s := fmt.Sprintf("s%d", *next)
		*next++
		return mpStr(s)
	}
	l := d17Full(d-1, next)
	r := d17Full(d-1, next)
	return mpArr(l, r)
}

func (m *c17m) d17Families() {
	ctx := m.ctx
	str := cty.String
	put := func(family string, d int, it *mpItem, t cty.Type, want string) {
		b := mpWrite(nil, it)
		tag := fmt.Sprintf("family:nested-sets:%s:depth-%d", family, d)
		ctx.Eval("family nested-sets "+family+" "+c17mShort(b)+" "+c17jTyWire(t), true)
		ctx.Tag(tag)
		c := c17mCase{b: b, t: t, tag: tag, want: want}
		if want != "" {
			c.fix = "9319c03"
		}
		m.add(c)
	}
	// (a) chains of singleton sets
	depths := []int{1, 2, 3, 4, 5, 6, 7, 8, 9, 10, 11, 12, 16, 20, 24, 28}
	if ctx.Thorough {
		depths = append(depths, 32, 36, 40)
	}
	for _, d := range depths {
		put("singleton", d, d17Chain(mpStr("a"), d), d17SetTy(str, d), "ok")
	}
	// (b) width 2: sets hash their compound members
	for d := 1; d <= 8; d++ {
		put("pair-innermost", d, d17Chain(mpArr(mpStr("a"), mpStr("b")), d-1), d17SetTy(str, d), "ok")
		if d >= 2 {
			put("fork-outermost", d, mpArr(d17Chain(mpArr(mpStr("a"), mpStr("b")), d-2), d17Chain(mpStr("c"), d-1)), d17SetTy(str, d), "ok")
			put("equal-members", d, mpArr(d17Chain(mpStr("a"), d-1), d17Chain(mpStr("a"), d-1)), d17SetTy(str, d), "ok")
		}
	}
	for d := 1; d <= ctx.N(7, 8); d++ {
		n := 0
		put("full-width-2", d, d17Full(d, &n), d17SetTy(str, d), "ok")
	}
	// (b') a number that travels as text with a huge binary exponent, as a member of a set: parsed in
	// microseconds, expanded in decimal by the set hash (the JSON half's recorded finding, through msgpack;
	// first seen by the thorough tier: 51 MB for a 71-byte document)
	{
		it := mpArr(mpStr("1p4000000"))
		b := mpWrite(nil, it)
		ctx.Eval("family huge-binary-exponent-set-member", true)
		ctx.Tag("family:huge-exponent:set-member")
		m.add(c17mCase{b: b, t: cty.Set(cty.Number), tag: "family:huge-exponent:set-member"})
		m.add(c17mCase{b: b, t: cty.List(cty.Number), tag: "family:huge-exponent:list-member"})
	}
	// (c) an unknown value at the innermost level: ok or err, not a panic
	for d := 1; d <= 8; d++ {
		put("unknown-member", d, d17Chain(d17PlainUnknown(), d), d17SetTy(str, d), "")
		put("unknown-and-known-member", d, d17Chain(mpArr(d17PlainUnknown(), mpStr("a")), d-1), d17SetTy(str, d), "")
	}
	// (d) the type is in the data: the dynamic wrapper
	for d := 1; d <= 10; d++ {
		tyJSON := strings.Repeat(`["set",`, d) + `"string"` + strings.Repeat("]", d)
		put("dynamic-wrapper", d, mpArr(mpBin([]byte(tyJSON)), d17Chain(mpStr("a"), d)), cty.DynamicPseudoType, "ok")
	}
}

// the runner of this family alone (development: `ctyharness -prop C17d17 -drv …`)
func init() {
	register("C17d17", "nested-set families of the MessagePack half of C17 (c17_d17.go), alone", func(ctx *Ctx) {
		m := &c17m{ctx: ctx, judge: &c06Judge{ctx: ctx, seen: map[string]struct{}{}}, seen: map[string]bool{}}
		m.d17Families()
		m.flush()
		m.judge.finish()
	})
}

// d17JsonDepthBoundary: json.ImpliedType at its nesting limit (/repo 0c63e6a, maxImpliedTypeDepth = 10000, which the
// Lean side reads from the source: Generated.jsonImpliedTypeDepthLimit).  Arrays and objects nested 9999, 10000, 10001
// and 10002 deep run on the real code and through the model WITH the limit (driver op d17.jsonimplied,
// lean/CtyModel/d17JsonDepth.lean): a type up to 10000, an error beyond.  (encoding/json's own Valid / Unmarshal refuse
// the deeper ones, so the trees are written here by hand.)
func d17JsonDepthBoundary(ctx *Ctx) {
	for _, d := range []int{3, 9999, 10000, 10001, 10002} {
		for _, shape := range []string{"arrays", "objects"} {
			var b []byte
			var tree string
			if shape == "arrays" {
				b = c17jFamily("arrays", d+1)[1 : 2*d+1] // d arrays around nothing: [[…[]…]]
				tree = strings.Repeat("(ja ", d-1) + "(ja)" + strings.Repeat(")", d-1)
			} else {
				b = c17jFamily("objects", d) // d objects around the number 1
				tree = strings.Repeat("(jo (x61 ", d) + "(jn x31)" + strings.Repeat("))", d)
			}
			var ty cty.Type
			var err error
			out := "ok"
			if p, why := try(func() { ty, err = ctyjson.ImpliedType(b) }); p {
				out = "panic"
				ctx.Fail(Failure{Site: "no-panic", Sig: "json.ImpliedType:at-nesting-limit", What: "ImpliedType panics at its nesting limit: " + why,
					Input: fmt.Sprintf("%s nested %d deep", shape, d), GoLit: fmt.Sprintf("json.ImpliedType(%s nested %d deep)", shape, d), Outcome: "panic"})
			} else if err != nil {
				out = "err"
			}
			want := "ok"
			if d > 10000 {
				want = "err"
			}
			ctx.Eval(fmt.Sprintf("family implied-depth-boundary %s %d", shape, d), true)
			ctx.Tag(fmt.Sprintf("family:implied-depth-boundary:%s-%d:%s", shape, d, out))
			if out != want && out != "panic" {
				ctx.Fail(Failure{Site: "regression", Sig: "json.ImpliedType:0c63e6a:nesting-limit-" + fmt.Sprint(d), What: "json.ImpliedType at its nesting limit (/repo 0c63e6a): want " + want,
					Input: fmt.Sprintf("%s nested %d deep", shape, d), GoLit: fmt.Sprintf("json.ImpliedType(%s nested %d deep)", shape, d), Outcome: out})
			}
			impl := out
			if out == "ok" {
				impl = "ok " + c17jTyWire(ty)
			}
			if out != "panic" {
				ctx.Add("d17.jsonimplied", impl, "(tbl (nfc) (hk))", tree)
			}
		}
	}
}

// d17CutFamily: documents that are cut off after a length header — what allocHint (/repo 9555bea, 12d5e4f) is
// for.  The header announces n members / bytes and nothing (or another such header) follows.  Each runs in a
// memory-capped worker; the measured allocation of msgpack.Unmarshal is compared with the model's allocation cost
// (lean D17.allocCostCut, driver op d17.cutfit: perSlot·slots <= measured <= 256·slots + 16384), both ways: a
// pre-allocation by the announced length shows as too much, a model that counts too much as too little.
func (m *c17m) d17CutFamily() {
	ctx := m.ctx
	str := cty.String
	hdr := func(code byte, n uint32) []byte { // array32 0xdd / map32 0xdf
		return []byte{code, byte(n >> 24), byte(n >> 16), byte(n >> 8), byte(n)}
	}
	ns := []uint32{1, 5, 1023, 1024, 1025, 65536, 1<<32 - 1}
	add := func(name string, b []byte, t cty.Type, cut string, per int) {
		ctx.Eval("family cut-documents "+name, true)
		ctx.Tag("family:cut-documents:" + name)
		m.add(c17mCase{b: b, t: t, want: "err", fix: "9555bea", cut: cut, per: per})
	}
	for _, n := range ns {
		add(fmt.Sprintf("list-%d", n), hdr(0xdd, n), cty.List(str), fmt.Sprintf("(carr %d () eof)", n), 16)
		add(fmt.Sprintf("set-%d", n), hdr(0xdd, n), cty.Set(str), fmt.Sprintf("(carr %d () eof)", n), 16)
		add(fmt.Sprintf("map-%d", n), hdr(0xdf, n), cty.Map(str), fmt.Sprintf("(cmapk %d ())", n), 16)
		// nested three deep: every level pre-allocates
		add(fmt.Sprintf("list-list-list-%d", n), append(append(hdr(0xdd, n), hdr(0xdd, n)...), hdr(0xdd, n)...),
			cty.List(cty.List(cty.List(str))), fmt.Sprintf("(carr %d () (carr %d () (carr %d () eof)))", n, n, n), 16)
		// one complete member, then the cut
		if n > 1 {
			add(fmt.Sprintf("list-one-member-%d", n), append(hdr(0xdd, n), 0xa1, 'x'), cty.List(str),
				fmt.Sprintf("(carr %d ((s x78)) eof)", n), 16)
		}
	}
	// a tuple / an object must announce exactly their arity
	tup := cty.Tuple([]cty.Type{str, str, str})
	add("tuple-3", []byte{0x93}, tup, "(carr 3 () eof)", 16)
	add("tuple-3-announcing-70000", hdr(0xdd, 70000), tup, "(carr 70000 () eof)", 16)
	obj := cty.Object(map[string]cty.Type{"a": str, "b": str, "c": str})
	add("object-3", []byte{0x83}, obj, "(cmapk 3 ())", 16)
	add("object-3-announcing-70000", hdr(0xdf, 70000), obj, "(cmapk 70000 ())", 16)
	// an extension header whose body is missing: within the limit the body buffer is made, beyond it nothing is
	for _, l := range []uint32{2, 200, 1024, 1025, 1 << 20, 1<<32 - 1} {
		b := []byte{0xc9, byte(l >> 24), byte(l >> 16), byte(l >> 8), byte(l), 12}
		add(fmt.Sprintf("ext-%d", l), b, str, fmt.Sprintf("(cext 12 %d)", l), 1)
	}
}
