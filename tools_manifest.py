#!/usr/bin/env python3
"""Regenerates MANIFEST.json from the table below (kept valid at all times)."""
import json, os
ROOT = os.path.dirname(os.path.abspath(__file__))
props = [json.loads(l) for l in open(os.path.join(ROOT, "properties.jsonl"))]

LEVEL_NOTE = ("Trusted: Lean 4.33 kernel (+leanchecker in thorough); axioms limited to propext/Classical.choice/Quot.sound, audited per theorem each run; "
              "the hand-written Lean model is tied to /repo by the correspondence harness (real go-cty vs compiled model on the same generated and enumerated inputs) "
              "and by facts regenerated from the source; the Go harness/extractor; external libraries (math/big, x/text, textseg, encoding/json, msgpack, reflect, Go runtime) are modelled or used as oracles, not verified.")

# property id -> (technique, level text, design ref, extra note)
CLAIMED = {
 "C02": ("Lean 4 proof (rounding lemma for the big.Float model, definitional unfolding of the operation methods) + differential correspondence with the Go implementation",
         "Machine-checked: every arithmetic result is the exact result rounded to nearest at the documented precision (half-ulp bound, exact when it fits), division by zero gives the signed infinity, comparison is exact, truth tables, list/tuple/object lookups return the constructed members, wrong-typed operands are rejected; the model reproduces math/big results bit for bit on every generated operand pair (exact mantissa/exponent/precision compared).",
         "DESIGN.md §6 C02", "division's half-ulp bound and modulo are covered by correspondence + rational-arithmetic predicates, not yet by a theorem; math/big itself is trusted"),
 "C07": ("Lean 4 proof (structural induction on the type model) + differential correspondence with the Go implementation",
         "Machine-checked theorems for all types of any depth: Equals is structural identity (hence an equivalence), conformance = equality up to optional annotations after filling placeholders, HasDynamicTypes = occurrence, annotation stripping idempotent and touching nothing else, type-JSON round trip at token-tree level. The model functions are transliterations of the Go methods and are diffed against /repo on every run, exhaustively for small types.",
         "DESIGN.md §6 C07", "byte-level JSON lexing is encoding/json's and is not modelled"),
 "C10": ("Lean 4 proof (closed-form decision table of Function.Call/ReturnTypeForValues, for all specs and all callbacks) + differential correspondence with the Go implementation (spy callbacks, small scopes enumerated)",
         "Machine-checked for every spec, every Type/Impl/RefineResult callback (arbitrary functions that may fail, panic or return junk) and every argument list: Impl runs only after Type succeeded and with its type; every argument the callbacks see satisfies the parameter contract (conformance, null, unknown, dynamic, marks at any depth); the outcome is exactly one row of the decision table (count error | ArgError naming the first offender by absolute index | short-circuit to an unknown of the checked type carrying exactly the unhandled marks | callback error | PanicError | conforming refined value with the unhandled marks); callback panics and non-conforming results become errors; a Go panic escapes iff the refinement builder refuses the result (recorded finding, proved as a counterexample). The model follows function.go branch for branch and is diffed against /repo on every run.",
         "DESIGN.md §6 C10", "the documented obligation 'RefineResult must be true of the result' is a hypothesis (RefinerValid) of no_go_panic; without it the counterexample is the known finding"),
}
NOT_YET = "machinery for this property is not built yet in this round (model slice, theorems and correspondence pending); see DESIGN.md §9 build order"

checks, na = [], []
for p in props:
    pid = p["id"]
    if pid in CLAIMED:
        tech, text, ref, extra = CLAIMED[pid]
        checks.append({
            "property_id": pid,
            "quick_cmd": f"./check {pid} --tier quick",
            "thorough_cmd": f"./check {pid} --tier thorough",
            "evidence_file": f"/verif/evidence/{pid}.json",
            "replay_cmd_template": f"./check {pid} --replay {{path}}",
            "engine": "lean4-proof+correspondence",
            "level_claimed": {"category": "proof", "text": text, "design_ref": ref},
            "level_note": LEVEL_NOTE + (" " + extra if extra else ""),
            "technique": tech,
        })
    else:
        na.append({"property_id": pid, "reason": NOT_YET})

hooks_commits = []
hc = os.path.join(ROOT, "hook_commits.txt")
if os.path.exists(hc):
    hooks_commits = [l.strip() for l in open(hc) if l.strip()]
m = {
 "version": 1,
 "setup_cmd": "./setup.sh",
 "hooks": {
   "guard": "verif",
   "enable": "go build -tags verif (the harness module replaces github.com/zclconf/go-cty with /repo)",
   "baseline_off_cmd": "cd /repo && go test -mod=mod -vet=off -count=1 ./...",
   "source_commits": hooks_commits,
   "add_only": True,
 },
 "engines": [
   {"name": "lean4-proof+correspondence", "path": "/verif/check",
    "serves_properties": [c["property_id"] for c in checks],
    "kind_free_text": "Lean 4 theorems about an executable model (lean/CtyModel), tied to /repo on every run by a Go differential harness (harness/) driving the compiled model (ctydrv) and by facts re-extracted from the source (extract/)"},
 ],
 "checks": checks,
 "notes": "See DESIGN.md. known_findings.json lists genuine defects recorded or fixed.",
 "not_applicable": na,
}
json.dump(m, open(os.path.join(ROOT, "MANIFEST.json"), "w"), indent=1)
print("claimed:", [c["property_id"] for c in checks])
