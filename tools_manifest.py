#!/usr/bin/env python3
"""Regenerates MANIFEST.json from the table below (kept valid at all times)."""
import json, os
ROOT = os.path.dirname(os.path.abspath(__file__))
props = [json.loads(l) for l in open(os.path.join(ROOT, "properties.jsonl"))]

LEVEL_NOTE = ("Trusted: Lean 4.33 kernel (+leanchecker in thorough); axioms limited to propext/Classical.choice/Quot.sound, audited per theorem each run; "
              "the hand-written Lean model is tied to /repo by the correspondence harness (real go-cty vs compiled model on the same generated and enumerated inputs) "
              "and by facts regenerated from the source; the Go harness/extractor; external libraries (math/big, x/text, textseg, encoding/json, msgpack, reflect, Go runtime) are modelled or used as oracles, not verified.")

# property id -> (technique, level text, design ref, extra note)
CLAIMED = {
 "C02": ("Lean 4 proof (rounding lemma for the big.Float model, definitional unfolding of the operation methods) + differential correspondence with the Go implementation",
         "Machine-checked: every arithmetic result is the exact result rounded to nearest at the documented precision (half-ulp bound, exact when it fits), division by zero gives the signed infinity, comparison is exact, truth tables, list/tuple/object lookups return the constructed members, wrong-typed operands are rejected; the model reproduces math/big results bit for bit on every generated operand pair (exact mantissa/exponent/precision compared).",
         "DESIGN.md §6 C02", "division's half-ulp bound and modulo are covered by correspondence + rational-arithmetic predicates, not yet by a theorem; math/big itself is trusted"),
 "C07": ("Lean 4 proof (structural induction on the type model) + differential correspondence with the Go implementation",
         "Machine-checked theorems for all types of any depth: Equals is structural identity (hence an equivalence), conformance = equality up to optional annotations after filling placeholders, HasDynamicTypes = occurrence, annotation stripping idempotent and touching nothing else, type-JSON round trip at token-tree level. The model functions are transliterations of the Go methods and are diffed against /repo on every run, exhaustively for small types.",
         "DESIGN.md §6 C07", "byte-level JSON lexing is encoding/json's and is not modelled"),
 "C10": ("Lean 4 proof (closed-form decision table of Function.Call/ReturnTypeForValues, for all specs and all callbacks) + differential correspondence with the Go implementation (spy callbacks, small scopes enumerated)",
         "Machine-checked for every spec, every Type/Impl/RefineResult callback (arbitrary functions that may fail, panic or return junk) and every argument list: Impl runs only after Type succeeded and with its type; every argument the callbacks see satisfies the parameter contract (conformance, null, unknown, dynamic, marks at any depth); the outcome is exactly one row of the decision table (count error | ArgError naming the first offender by absolute index | short-circuit to an unknown of the checked type carrying exactly the unhandled marks | callback error | PanicError | conforming refined value with the unhandled marks); callback panics and non-conforming results become errors; a Go panic escapes iff the refinement builder refuses the result (recorded finding, proved as a counterexample). The model follows function.go branch for branch and is diffed against /repo on every run.",
         "DESIGN.md §6 C10", "the documented obligation 'RefineResult must be true of the result' is a hypothesis (RefinerValid) of no_go_panic; without it the counterexample is the known finding"),
 "C11": ("Lean 4 proof (call-protocol theorems instantiated over parameter tables regenerated from the built code; type-only prediction soundness under a monotonicity obligation, unconditional for statically typed functions) + exhaustive-by-function randomized search on the real stdlib + correspondence of the regenerated tables",
         "PARTIAL. Proved for every stdlib function (parameter tables and Type/RefineResult shapes are regenerated from /repo on every run) and for arbitrary callbacks: a successful result conforms to ReturnTypeForValues; with a monotone Type callback it also conforms to ReturnType(argument types), which then does not reject the call — unconditional for the functions declared with StaticReturnType; a Go panic can only come from the declared refinement refusing the result, and a PanicError only from the function's own callbacks panicking or returning a non-conforming value. NOT proved: that each function's own Type/Impl code never panics and that each dynamic Type callback is monotone — proved only where those callbacks are modelled (C13, C14), otherwise searched: every exported function x generated argument lists with nulls, unknowns, DynamicVal and marks injected at every position and depth.",
         "DESIGN.md §6 C11", "totality of the per-function callbacks that are not modelled is search-only; third-party libraries (regexp, time, encoding/csv, fmt, strings) are not verified"),
 "C14": ("Lean 4 proof (model = specification for cty's own arithmetic/position logic; library glue proved total relative to oracle answers) + differential correspondence with the Go implementation using the real libraries as oracle columns",
         "PARTIAL. Machine-checked: ceil/floor/int/signum/abs/min/max/parseint characterised exactly on the big.Float model; arithmetic/comparison/logic wrappers equal the C02 operations; substr/strlen/reverse are take/drop/length/reverse on grapheme-cluster lists and never split a cluster; for the library-glue functions (upper, lower, title, trim*, replace, regexreplace, split, join, chomp, indent, formatdate, timeadd) the cty layer is modelled (argument order, NFC re-normalisation, error mapping) and proved to add no panic for any library answer; format: scanner, argument bookkeeping and cluster width/precision. The libraries themselves (strings, regexp, time, encoding/csv, fmt, math) are the reference in the property's own words and are oracle columns, not verified.",
         "DESIGN.md §6 C14", "regex/regexall/csvdecode totality and format verbs needing type conversion are search-only; the ragel scanner is replaced by a hand-written scanner compared through whole-function correspondence"),
 "C18": ("Lean 4 proof (induction over the Go value/type model of cty/gocty; exact integer and float decode characterisations) + differential correspondence with the Go implementation over a family of 51 Go types described by reflect",
         "Machine-checked: decoding into any of the ten integer types succeeds iff the number is a whole number within the type's bounds and then stores exactly that number (bounds table proved); float decode characterised exactly incl. the float64 refusal threshold; any unmarked value into any target never panics; ToCtyValue at the implied type conforms to it; FromCtyValue(ToCtyValue(g, implied T)) = g by induction over all modelled shapes (primitives, slices, arrays, maps, pointers at any depth, tagged structs, big numbers, embedded cty.Value) under an explicit decidable side condition whose two excluded shapes are the recorded findings (each with a counterexample theorem).",
         "DESIGN.md §6 C18", "reflect itself is not verified: Go types reach the model through a descriptor the harness derives with reflect; capsules, sets of non-primitive members and duplicate struct tags are unmodelled (skipped and counted)"),
 "C04": ("Lean 4 proof (unmark/recurse/re-mark prologue shape of every operation method, re-extracted from the source; induction over payloads; call-protocol marks for all callbacks) + differential correspondence with the Go implementation",
         "Machine-checked for all values, marks and operands: every one of the 18 operation methods commutes with deep unmarking (same outcome class, same unmarked result), keeps every top-level operand mark (and every nested mark where the code promises it: Equals, HasElement needle), and invents none; SetVal hoists member marks; Mark/Unmark/WithMarks/WithSameMarks/UnmarkDeepWithPaths+MarkWithPaths round trips; the conversion wrapper keeps and does not invent marks for every inner conversion; Function.Call puts every mark found anywhere in a non-AllowMarked argument on the result and, with no AllowMarked parameter, equals the call on unmarked arguments re-marked — for all callbacks. The marks prologue of each method is regenerated from cty/value_ops.go on every run and must equal the text the model assumes.",
         "DESIGN.md §6 C04", "nested marks through convert and AllowMarked stdlib functions are searched (paired marked/unmarked runs of the real code), not proved"),
 "C05": ("Lean 4 proof (refinement builder as a state machine, induction over call sequences; prefix theorems under an explicit law of the Unicode libraries that is probed every run) + differential correspondence with the Go implementation, small scopes enumerated",
         "Machine-checked for all builder call sequences on all receivers: type preserved; Range() reports exactly what was recorded; refinement only narrows and is exactly 'previous AND new constraint' under an exact number comparison (the code compares numbers by decimal text: that gap is a recorded finding with counterexample theorems, as are exclusive infinite bounds); contradictions are rejected; collapse to known values (null, point range, fixed length); refining a known value is an assertion. SafeKnownPrefix returns a byte prefix of the NFC form that ends no later than the last normalisation boundary for ANY delimiter table, hence is continuation-safe given the stated stability law of x/text (a structure field, probed ~29k times per run); the delimiter table is regenerated from the source.",
         "DESIGN.md §6 C05", "NFC and UAX#29 segmentation are the real libraries (oracle columns); ValueRange.Includes is diffed but has no theorem"),
}
NOT_YET = "machinery for this property is not built yet in this round (model slice, theorems and correspondence pending); see DESIGN.md §9 build order"

checks, na = [], []
for p in props:
    pid = p["id"]
    if pid in CLAIMED:
        tech, text, ref, extra = CLAIMED[pid]
        checks.append({
            "property_id": pid,
            "quick_cmd": f"./check {pid} --tier quick",
            "thorough_cmd": f"./check {pid} --tier thorough",
            "evidence_file": f"/verif/evidence/{pid}.json",
            "replay_cmd_template": f"./check {pid} --replay {{path}}",
            "engine": "lean4-proof+correspondence",
            "level_claimed": {"category": "proof", "text": text, "design_ref": ref},
            "level_note": LEVEL_NOTE + (" " + extra if extra else ""),
            "technique": tech,
        })
    else:
        na.append({"property_id": pid, "reason": NOT_YET})

hooks_commits = []
hc = os.path.join(ROOT, "hook_commits.txt")
if os.path.exists(hc):
    hooks_commits = [l.strip() for l in open(hc) if l.strip()]
m = {
 "version": 1,
 "setup_cmd": "./setup.sh",
 "hooks": {
   "guard": "verif",
   "enable": "go build -tags verif (the harness module replaces github.com/zclconf/go-cty with /repo)",
   "baseline_off_cmd": "cd /repo && go test -mod=mod -vet=off -count=1 ./...",
   "source_commits": hooks_commits,
   "add_only": True,
 },
 "engines": [
   {"name": "lean4-proof+correspondence", "path": "/verif/check",
    "serves_properties": [c["property_id"] for c in checks],
    "kind_free_text": "Lean 4 theorems about an executable model (lean/CtyModel), tied to /repo on every run by a Go differential harness (harness/) driving the compiled model (ctydrv) and by facts re-extracted from the source (extract/)"},
 ],
 "checks": checks,
 "notes": "See DESIGN.md. known_findings.json lists genuine defects recorded or fixed.",
 "not_applicable": na,
}
json.dump(m, open(os.path.join(ROOT, "MANIFEST.json"), "w"), indent=1)
print("claimed:", [c["property_id"] for c in checks])
