#!/bin/bash
# tools/seedtry.sh <dir-with-patch.diff> <prop> [more props…]   — try the checks on a scratch worktree with a seeded change applied
# (never touches /repo's working tree; the registered checks always run on /repo itself)
set -u
d=$(realpath "$1"); shift
export GOFLAGS=-mod=mod GOPROXY=off GOSUMDB=off GOTOOLCHAIN=local
root=$(cd "$(dirname "$0")/.." && pwd)   # the /verif clone this script lives in (sub-agents run it from their own clones)
wt=/tmp/seed/apply-$$
mkdir -p /tmp/seed
git -C /repo worktree add -q --detach $wt HEAD || exit 2
h=$(printf %s "$wt" | sha256sum | cut -c1-8)
trap 'git -C /repo worktree remove --force $wt; rm -f $root/.bin/alt-$h.* $root/.bin/ctyharness-$h' EXIT
git -C $wt apply "$d/patch.diff" || { echo "PATCH DOES NOT APPLY"; exit 2; }
if [ "${SEED_VERIFY:-1}" = 1 ]; then
  (cd $wt && go build ./... && go test -vet=off -count=1 ./... 2>&1 | grep -v "^ok\|no test files" | head -20; echo "suite-exit=${PIPESTATUS[0]}")
  if [ -f "$d/demo_test.go" ]; then
    mkdir -p $wt/seeddemo/x && cp "$d/demo_test.go" $wt/seeddemo/x/ && (cd $wt && go test -vet=off -count=1 ./seeddemo/x/ 2>&1 | tail -4; echo "demo-with-change-exit=${PIPESTATUS[0]} (want 1)")
    git -C $wt apply -R "$d/patch.diff" && (cd $wt && go test -vet=off -count=1 ./seeddemo/x/ 2>&1 | tail -2; echo "demo-without-change-exit=${PIPESTATUS[0]} (want 0)")
    git -C $wt apply "$d/patch.diff"; rm -rf $wt/seeddemo
  fi
fi
for p in "$@"; do
  echo "== check $p on seeded tree"
  (cd $root && VERIF_REPO=$wt ./check $p ${SEED_TIER:+--tier $SEED_TIER} 2>&1 | tail -${SEED_TAIL:-6}; echo "check-exit=${PIPESTATUS[0]}")
done
