#!/bin/bash
# tools/mkclone.sh <name> — private clone of /verif for one slice, with the build caches copied in
set -e
n=$1
rm -rf /tmp/w/$n
git clone -q /verif /tmp/w/$n
cp -r /verif/lean/.lake /tmp/w/$n/lean/.lake
cp -r /verif/.bin /tmp/w/$n/.bin
cp /repo/go.sum /tmp/w/$n/harness/go.sum
cd /tmp/w/$n && git checkout -q -b slice-$n
echo "clone /tmp/w/$n ready"
