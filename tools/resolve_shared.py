#!/usr/bin/env python3
"""Resolve merge conflicts in the four shared registry files by taking the union of both sides.
Run in /verif during a conflicted `git pull` of a slice branch."""
import json, re, subprocess, sys
def show(stage, path):
    return subprocess.run(["git", "show", f":{stage}:{path}"], capture_output=True, text=True).stdout
def conflicted():
    out = subprocess.run(["git", "diff", "--name-only", "--diff-filter=U"], capture_output=True, text=True).stdout
    return [l for l in out.split("\n") if l]
def union_lines(a, b):
    res = a.rstrip("\n").split("\n")
    for l in b.rstrip("\n").split("\n"):
        if l not in res: res.append(l)
    return "\n".join(res) + "\n"
for p in conflicted():
    ours, theirs = show(2, p), show(3, p)
    if p == "lean/CtyModel.lean":
        merged = union_lines(ours, theirs)
    elif p == "lean/Driver/Main.lean":
        imp = lambda s: [l for l in s.split("\n") if l.startswith("import ")]
        imports = imp(ours) + [l for l in imp(theirs) if l not in imp(ours)]
        hl = lambda s: [h.strip() for h in re.search(r"def handlers : List Handler := \[(.*?)\]", s, re.S).group(1).split(",")]
        hs = hl(ours) + [h for h in hl(theirs) if h not in hl(ours)]
        body = re.sub(r"def handlers : List Handler := \[.*?\]", "def handlers : List Handler := [" + ", ".join(hs) + "]", ours, flags=re.S)
        lines = body.split("\n")
        first = next(i for i, l in enumerate(lines) if l.startswith("import "))
        last = max(i for i, l in enumerate(lines) if l.startswith("import "))
        merged = "\n".join(lines[:first] + imports + lines[last + 1:])
    elif p == "lean/expected_theorems.json":
        a, b = json.loads(ours), json.loads(theirs)
        base = json.loads(show(1, p) or "{}")
        for k, v in b.items():
            if k not in a or (base.get(k) == a.get(k)): a[k] = v
        merged = json.dumps(a, indent=1, sort_keys=True)
    elif p == "known_findings.json":
        a, b = json.loads(ours), json.loads(theirs)
        key = lambda f: (f.get("property"), f.get("site"), f.get("sig"), f.get("sig_prefix"))
        have = {key(f) for f in a["findings"]}
        fixed = {(f.get("property"), f.get("site")) for f in a["findings"] if f.get("status") == "fixed"}
        for f in b["findings"]:
            if key(f) not in have:
                a["findings"].append(f); have.add(key(f))
        merged = json.dumps(a, indent=1, ensure_ascii=False)
    elif p.startswith("evidence/"):
        merged = ours   # rewritten by the next run of the check anyway
    else:
        print("UNRESOLVED:", p); continue
    open(p, "w").write(merged)
    subprocess.check_call(["git", "add", p])
    print("resolved", p)
