#!/usr/bin/env python3
"""Rewrites the generated tables of DESIGN.md §11 (between <!-- BEGIN x --> / <!-- END x --> markers):
seeded changes (from seeded/*/meta.json), repaired defects (from /repo's fix: commits) and recorded findings."""
import glob, json, os, re, subprocess
ROOT = os.path.dirname(os.path.dirname(os.path.abspath(__file__)))
def seeded():
    rows = ["| seeded change | property | needs in order to manifest | result of the checks |", "|---|---|---|---|"]
    for d in sorted(glob.glob(os.path.join(ROOT, "seeded", "[!_]*"))):
        m = json.load(open(os.path.join(d, "meta.json")))
        esc = lambda s: " ".join(str(s).replace("|", "\\|").split())
        rows.append(f"| {os.path.basename(d)} | {m.get('property','')} | {esc(m.get('needs',''))[:260]} | {esc(m.get('checks_run',''))[:330]} |")
    return "\n".join(rows)
def fixes():
    out = subprocess.run(["git", "-C", "/repo", "log", "--reverse", "--format=%h %s"], capture_output=True, text=True).stdout
    k = json.load(open(os.path.join(ROOT, "known_findings.json")))["findings"]
    props = {}
    for f in k:
        if f.get("status") == "fixed":
            for c in re.split(r"[ ,]+", f.get("commit", "")):
                if c: props.setdefault(c[:7], set()).add(f["property"])
    rows = ["| commit | found by | repair |", "|---|---|---|"]
    for l in out.split("\n"):
        if " fix: " in l:
            h, s = l.split(" ", 1)
            rows.append(f"| {h} | {', '.join(sorted(props.get(h[:7], []))) or '—'} | {s[5:]} |")
    return "\n".join(rows)
def findings():
    k = json.load(open(os.path.join(ROOT, "known_findings.json")))["findings"]
    rows = ["| property | site [signature] | what |", "|---|---|---|"]
    for f in k:
        if f.get("status") == "finding":
            sig = f.get("sig") or (f.get("sig_prefix", "") + "*")
            rows.append(f"| {f['property']} | {f['site']} [{sig}] | {' '.join(f['what'].replace('|','/').split())[:300]} |")
    return "\n".join(rows)
def status():
    exp = json.load(open(os.path.join(ROOT, "lean", "expected_theorems.json")))
    man = json.load(open(os.path.join(ROOT, "MANIFEST.json")))
    claimed = {c["property_id"]: c for c in man["checks"]}
    rows = ["| property | claimed | pinned theorems | last quick run in /verif: correspondence cases / predicate evaluations / known findings / wall s |", "|---|---|---|---|"]
    for l in open(os.path.join(ROOT, "properties.jsonl")):
        pid = json.loads(l)["id"]
        ev = {}
        try: ev = json.load(open(os.path.join(ROOT, "evidence", pid + ".json")))
        except Exception: pass
        cov = ev.get("coverage", {})
        c = claimed.get(pid)
        lvl = "no" if not c else ("PARTIAL" if c["level_claimed"]["text"].startswith("PARTIAL") else "yes")
        run = f"{cov.get('traces_validated_against_impl','-')} / {cov.get('evaluations','-')} / {len(cov.get('known_findings_reproduced',[])) if cov else '-'} / {ev.get('wall_s','-')}" if ev else "-"
        rows.append(f"| {pid} | {lvl} | {len(exp.get(pid, []))} | {run} |")
    return "\n".join(rows)
p = os.path.join(ROOT, "DESIGN.md")
s = open(p).read()
for name, fn in (("SEEDED", seeded), ("FIXES", fixes), ("FINDINGS", findings), ("STATUS", status)):
    b, e = f"<!-- BEGIN {name} -->", f"<!-- END {name} -->"
    if b in s:
        s = s[:s.index(b) + len(b)] + "\n" + fn() + "\n" + s[s.index(e):]
open(p, "w").write(s)
print("tables rewritten")
