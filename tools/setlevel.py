#!/usr/bin/env python3
"""tools/setlevel.py Cnn <file-with-new-level-text> [<file-with-new-level-note>] — replace the level_claimed.text (and optionally the
level_note) of one property in tools_manifest.py's CLAIMED table (each entry: technique, text, design_ref, note on three lines)."""
import sys, json
pid, tf = sys.argv[1], sys.argv[2]
p = '/verif/tools_manifest.py'
L = open(p).read().split('\n')
for n, l in enumerate(L):
    if l.startswith(' "%s": (' % pid):
        text = ' '.join(open(tf).read().split())
        L[n + 1] = '         ' + json.dumps(text, ensure_ascii=False) + ','
        if len(sys.argv) > 3:
            note = ' '.join(open(sys.argv[3]).read().split())
            ref = L[n + 2].split('", "', 1)[0]
            tail = '),' if L[n + 2].rstrip().endswith('),') else ')'
            L[n + 2] = ref + '", ' + json.dumps(note, ensure_ascii=False) + tail
        break
else:
    sys.exit('no entry for ' + pid)
open(p, 'w').write('\n'.join(L))
print('updated', pid)
