#!/bin/bash
# tools/sweep.sh [seeds...] — unchanged-tree sweep: every claimed check, quick tier for each seed, then the thorough tier once.
# Meant for `vp run -- tools/sweep.sh 2 3 4` (builds the snapshot first). Prints one line per run; non-zero exits are marked.
cd "$(dirname "$0")/.."
./setup.sh > sweep-setup.log 2>&1 || { echo "SETUP FAILED"; tail -20 sweep-setup.log; exit 2; }
props=$(python3 -c "import json;print(' '.join(c['property_id'] for c in json.load(open('MANIFEST.json'))['checks']))")
for s in "$@"; do for p in $props; do
  out=$(VERIF_SEED=$s ./check $p 2>&1); rc=$?
  echo "seed=$s rc=$rc $(echo "$out" | tail -1 | cut -c1-250)"; [ $rc -ne 0 ] && echo "$out" | grep -v KNOWN-FINDING | tail -15
done; done
if [ "${SWEEP_THOROUGH:-1}" = 1 ]; then for p in $props; do
  out=$(./check $p --tier thorough 2>&1); rc=$?
  echo "thorough rc=$rc $(echo "$out" | tail -1 | cut -c1-250)"; [ $rc -ne 0 ] && echo "$out" | grep -v KNOWN-FINDING | tail -15
done; fi
