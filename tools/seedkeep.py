#!/usr/bin/env python3
"""tools/seedkeep.py <srcdir> <name> <caught-by text>  — store a verified seeded change under /verif/seeded/<name>/"""
import json, os, shutil, sys
src, name, caught = sys.argv[1], sys.argv[2], sys.argv[3]
dst = os.path.join("/verif/seeded", name)
os.makedirs(dst, exist_ok=True)
for f in os.listdir(src):
    if f in ("patch.diff", "demo_test.go", "main.go", "RUN.txt"):
        shutil.copy(os.path.join(src, f), dst)
meta = json.load(open(os.path.join(src, "meta.json")))
meta["verified_by_lead"] = ("applied patch.diff to a scratch worktree of /repo HEAD: `go build ./... && go test -vet=off -count=1 ./...` passes; "
                            "the demonstration fails with the change and passes without it (tools/seedtry.sh)")
meta["checks_run"] = caught
json.dump(meta, open(os.path.join(dst, "meta.json"), "w"), indent=1, ensure_ascii=False)
print("kept", dst)
