#!/bin/bash
# tools/mergeslice.sh <clone-name> <prop> [more props]  — merge /tmp/w/<name> (its current branch tip) into /verif main,
# resolve the shared registries, build the whole root, run the given checks; roll back if the build breaks.
set -u
n=$1; shift
cd /verif
git add -A >/dev/null; git commit -qm "evidence/wip before merging $n" >/dev/null 2>&1
before=$(git rev-parse HEAD)
br=$(git -C /tmp/w/$n rev-parse --abbrev-ref HEAD)
tip=$(git -C /tmp/w/$n log --oneline -1)
git pull -q --no-rebase --no-edit /tmp/w/$n $br >/dev/null 2>&1
tools/resolve_shared.py | grep -v "^resolved" 
if git status --short | grep -q "^UU\|^AA\|^DU\|^UD"; then echo "UNRESOLVED CONFLICTS:"; git status --short | grep "^UU\|^AA\|^DU\|^UD"; git merge --abort 2>/dev/null; git reset -q --hard $before; exit 1; fi
git add -A; git commit -qm "merge $n ($tip)" >/dev/null 2>&1
if [ "$(git rev-parse HEAD)" = "$before" ]; then echo "NOTHING MERGED from $n (pull failed?)"; exit 1; fi
out=$(cd lean && lake build CtyModel ctydrv 2>&1 | grep -E "^error|error:" | head -5)
if [ -n "$out" ]; then echo "BUILD BROKEN after merging $n:"; echo "$out"; git reset -q --hard $before; exit 1; fi
echo "merged $n: $tip"
for p in "$@"; do ./check $p 2>&1 | grep -v KNOWN | cut -c1-200 | tail -1; done
