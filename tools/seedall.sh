#!/bin/bash
# tools/seedall.sh [name-prefix] — run every kept seeded change (seeded/<name>/patch.diff) against the check of the property it breaks,
# on a scratch worktree of /repo (VERIF_REPO), and print one line per change: CAUGHT (check exits 1 with a VIOLATION line) or MISSED.
# Meant for `vp run -- tools/seedall.sh` (builds the snapshot first with setup.sh when .bin is missing).
cd "$(dirname "$0")/.."
[ -x .bin/ctyharness ] || ./setup.sh > seedall-setup.log 2>&1 || { echo "SETUP FAILED"; tail -20 seedall-setup.log; exit 2; }
for d in seeded/${1:-}*/; do
  n=$(basename $d); [ -f $d/patch.diff ] || continue
  p=$(python3 -c "import json,sys;print(json.load(open('$d/meta.json'))['property'])")
  out=$(SEED_VERIFY=0 SEED_TAIL=3 tools/seedtry.sh $d $p 2>&1)
  if echo "$out" | grep -q "PATCH DOES NOT APPLY"; then echo "$n $p STALE-PATCH"; continue; fi
  if echo "$out" | grep -q "check-exit=1" && echo "$out" | grep -q "VIOLATION"; then
    echo "$n $p CAUGHT $(echo "$out" | grep VIOLATION | head -1 | cut -c1-160)"
  else
    echo "$n $p MISSED $(echo "$out" | tail -3 | tr '\n' ' ' | cut -c1-300)"
  fi
done
